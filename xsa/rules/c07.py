"""C07 -- table rows addressed by name resolve against the current index column.

Formulated on symbolic terms (xsa.sym) of the normalised Table methods: a *write site* is a store event whose
target term is (part of) `self._data[K]`, whatever local aliases or helper methods the code goes through; an
invalidation is judged by the conditions under which it executes relative to the write.
"""
from __future__ import annotations

import ast
from typing import List

from .. import astutil as A
from .. import sym as S
from ..core import AnalysisError, Collector
from .common import SCtx, sctx

PROP = "C07"
FLOORS = {"C07.R1": 8, "C07.R2": 1, "C07.R3": 7, "C07.R4": 6, "C07.R5": 4}
META = {
    "explanation": "The (name, occurrence) -> position lookup is a lazily filled cache. Its inputs are the fields its fill function reads "
                   "(the index column data, `_index`, `_sep_count`). Writer inventory over every method of Table (symbolic store events, "
                   "aliases and helpers dissolved): each write that can hit the index column (cell/slice store, column rebinding, the "
                   "generic object.__setattr__ of __setitem__) must be followed on every path by an invalidation that executes whenever "
                   "the column written is the index column, or be preceded by one with no cache fill in between; an invalidation "
                   "conditioned on anything else (e.g. on a comparison of old and new values) does not count. Plus: get/set resolve "
                   "rows by the same computation; the name::count<<offset parser's sign roles; negative counts shifted by the "
                   "occurrence count (and nothing else); absent -> None -> KeyError; all entry points end in the same resolver; the "
                   "cache is only read through that resolver; shape of the cache fill. The unique labels go into an object array; (name,) / (name, count) tuples rely on defaults 0; a cache miss (None) never reaches a column subscript.",
    "decides": "coherence of the name cache under every API write (invalidate-on-write), agreement of the resolvers",
    "not_decided": "that the cache numbers occurrences correctly for all data (loop invariant over data) beyond the constants checked",
    "assumptions": ["numpy column arrays are mutated only through the Table API (excluded: writes to t._data[...] arrays from outside)"],
}

CACHE_API = {"_invalidate_cache", "_get_cache", "_get_row_cache", "_get_row_cache_raise", "_get_row_index", "_get_row_indices",
             "_get_regexp_indices", "_make_cache", "_make_view", "_split_name_count_offset", "_select", "_select_rows", "_select_cols",
             "_copy", "_get_row_where_col", "_concatenate_table", "_update", "_append_row", "_get_col_regexp_indices"}
CACHE_FILLERS = {"_get_cache", "_get_row_cache", "_get_row_cache_raise", "_get_row_index", "_get_row_indices", "_get_regexp_indices", "_make_view"}
EXEMPT_METHODS = {
    "__init__": "constructs the table; sets the cache fields to None (checked)",
    "__setstate__": "restores a complete, consistent __dict__",
    "__delitem__": "column removal: no index column left to resolve against if it is the index",
    "pop": "column removal",
}
DATA = S.sattr("_data")
INDEX = S.sattr("_index")
OBJ_SETATTR = ("attr", ("glob", "object"), "__setattr__")


def tctx(repo, name: str, cls: str = "Table") -> SCtx:
    return sctx(repo, cls, name, keep=CACHE_API)


def _private_helper(name: str) -> bool:
    """a private method that is not part of the cache API: inlined into its callers and judged there"""
    return name.startswith("_") and not name.startswith("__") and name not in CACHE_API


def _invalidations(sx: SCtx) -> List[int]:
    out = [ev.nid for ev, m in sx.calls_some(S.mcall(S.SELF, "_invalidate_cache"))]
    out += [ev.nid for ev, m in sx.calls_some(("call", OBJ_SETATTR, (S.SELF, ("const", repr("_index_cache")), ("const", "None")), ()))]
    return sorted(set(out))


def _fills(sx: SCtx) -> List[int]:
    return sorted({ev.nid for ev, m in sx.calls_some(("call", ("attr", S.SELF, S.V("m", lambda t: t in CACHE_FILLERS)), S.ANY, S.ANY))})


def write_sites(sx: SCtx):
    """[(nid, key term or None, kind, description)] for stores that may hit the index column / cache inputs of `self`"""
    out = []
    for ev in sx.events:
        if ev.kind == "store":
            for t in S.alts(ev.target):
                if t[:1] == ("sub",) and t[1] == DATA:
                    out.append((ev.nid, t[2], "rebind", f"rebinds self._data[{S.show(t[2], False)}]", ev))
                elif t[:1] == ("sub",) and t[1][:1] == ("sub",) and t[1][1] == DATA:
                    out.append((ev.nid, t[1][2], "cell", f"stores into self._data[{S.show(t[1][2], False)}][...]", ev))
                elif t == DATA:
                    out.append((ev.nid, None, "attr", "rebinds self._data", ev))
                elif t in (INDEX, S.sattr("_sep_count")):
                    out.append((ev.nid, None, "attr", f"sets {S.show(t)}", ev))
        elif ev.kind == "call":
            for t in S.instances(ev.term, 16):
                if t[:1] == ("call",) and t[1] == OBJ_SETATTR and len(t[2]) == 3 and t[2][0] == S.SELF:
                    k = t[2][1]
                    if k[:1] == ("const",):
                        if k[1].strip("'\"") in ("_index", "_sep_count", "_data"):
                            out.append((ev.nid, None, "attr", f"object.__setattr__(self, {k[1]}, ...)", ev))
                    else:
                        out.append((ev.nid, k, "attrname", f"object.__setattr__(self, {S.show(k, False)}, ...) with a computed attribute name", ev))
                if t[1][:1] == ("attr",) and t[1][1] == DATA and t[1][2] in ("update", "__setitem__", "setdefault"):
                    out.append((ev.nid, None, "attr", f"self._data.{t[1][2]}(...)", ev))
    return out


def _key_is_index(c, key, kind) -> bool:
    """condition c holds whenever the key written is the index column (resp. a cache-input attribute name)"""
    parts = list(c[2]) if (c[:1] == ("bool",) and c[1] == "or") else [c]
    # `key in (a, b, c)` over a display is `key == a or key == b or key == c`
    flat = []
    for p in parts:
        if p[:1] == ("cmp",) and p[1] == "in" and p[3][:1] in (("tuple",), ("list",), ("set",)):
            flat += [("cmp", "==", p[2], x) for x in p[3][1]]
        else:
            flat.append(p)
    parts = flat
    if kind == "attrname":
        names = set()
        for p in parts:
            if p[:1] == ("cmp",) and p[1] == "==":
                for a, b in ((p[2], p[3]), (p[3], p[2])):
                    if a == key and b[:1] == ("const",):
                        names.add(b[1].strip("'\""))
            if p[:1] == ("cmp",) and p[1] == "in" and p[2] == key and p[3][:1] in (("tuple",), ("list",), ("set",)):
                names |= {x[1].strip("'\"") for x in p[3][1] if x[:1] == ("const",)}
        return {"_index", "_sep_count"} <= names
    if key is None:
        return any(p[:1] == ("cmp",) and p[1] == "==" and INDEX in (p[2], p[3]) for p in parts)
    return any(p[:1] == ("cmp",) and p[1] == "==" and {p[2], p[3]} == {key, INDEX} for p in parts)


def _key_not_index_branches(sx: SCtx, key, kind) -> List[int]:
    out = []
    for n in sx.cfg.nodes.values():
        if n.kind in ("T", "F") and n.ast is not None and not isinstance(n.ast, (ast.For, ast.AsyncFor)):
            t = sx.sym.of(n.ast, n.of)
            neg = S.norm_cond(n.kind != "T", t)      # what holds on the *other* branch
            if any(_key_is_index(c, key, kind) for c in S.conjuncts(neg)) and len(S.conjuncts(neg)) == 1:
                out.append(n.id)
    return out


def _invalidate_on_write(col, rule="C07.R1"):
    repo = col.repo
    t = repo.cls("Table")
    seen = set()
    n_sites = 0
    for name, fn in t.methods.items():
        if id(fn) in seen or name in t.properties:
            continue
        seen.add(id(fn))
        if _private_helper(name):
            continue     # judged where it is inlined
        sx = tctx(repo, name)
        sites = write_sites(sx)
        if not sites:
            continue
        if name in EXEMPT_METHODS:
            col.ok(rule, f"Table.{name}#exempt", sx.loc(sx.fn), f"writer exempt: {EXEMPT_METHODS[name]}", "")
            continue
        cfg = sx.cfg
        inval = _invalidations(sx)
        fills = _fills(sx)
        for nid, key, kind, desc, ev in sites:
            n_sites += 1
            if kind == "rebind" and ev.value is not None and key is not None:
                mk = S.match(key, ("key", S.V("d")))
                if mk is not None and ev.value == ("val", mk["d"]) and DATA in S.alts(mk["d"]):
                    col.ok(rule, f"Table.{name}#identity-write", sx.loc(nid),
                           "re-stores the table's own columns (key and value come from iterating self._data.items()): no data changes", "")
                    continue
            wconds = set(sx.conds(nid))
            good = []
            for i in inval:
                extra = [c for c in sx.conds(i) if c not in wconds]
                if all(_key_is_index(c, key, kind) for c in extra):
                    good.append(i)
            skips = _key_not_index_branches(sx, key, kind)
            after_ok = bool(good) and cfg.must_pass(nid, cfg.EXIT, good + skips) and any(cfg.path_avoiding(nid, i, []) for i in good)
            # `column[:] = values` converts element by element and can raise having overwritten the leading rows: only an
            # invalidation that has already happened covers that exit
            partial = kind == "cell" and ev.kind == "store" and any(t_[:1] == ("sub",) and t_[2][:1] == ("slice",) for t_ in S.alts(ev.target))
            if partial and after_ok:
                after_ok = False
            before_ok, why = False, ""
            if not after_ok:
                pre = [i for i in good if cfg.path_avoiding(i, nid, [])]
                before_ok = bool(pre) and cfg.must_pass(cfg.ENTRY, nid, pre + skips)
                refill = [f for f in fills if any(cfg.path_avoiding(i, f, []) for i in pre) and cfg.path_avoiding(f, nid, [])]
                if before_ok and refill:
                    before_ok = False
                    why = ("the cache is refilled between the invalidation and the write (the row is resolved by name first): "
                           f"{[sx.loc(f) for f in refill][:3]}")
                elif not before_ok and partial and good:
                    why = "the slice assignment can raise half-way (element-wise conversion); the invalidation only follows it"
                elif not before_ok:
                    cond_inval = [i for i in inval if i not in good]
                    why = "no invalidation that fires for the index column follows, or precedes, this write on every path" + \
                          (f" (invalidations conditioned on something else: {[(sx.loc(i), [S.show(c) for c in sx.conds(i)]) for i in cond_inval][:2]})"
                           if cond_inval else (f" (invalidations present: {[sx.loc(i) for i in inval]})" if inval else " (no invalidation in this method)"))
            col.add(rule, f"Table.{name}#write:{desc}", after_ok or before_ok, sx.loc(nid),
                    "a write that may hit the index column (or `_index`/`_sep_count`) is followed -- or preceded without an intervening "
                    "cache fill -- by an invalidation of the name cache that fires whenever the index column is the one written", why)
    col.count("table_write_sites", n_sites)
    # fresh tables start with an empty cache; invalidation resets it; fill is lazy on `is None`
    sx = tctx(repo, "__init__")
    okn = False
    for ev in sx.events:
        for tm in ([ev.term] if ev.kind == "call" else [ev.value] if ev.value is not None else []):
            for s_ in S.subterms(tm):
                if s_[:1] == ("dict",):
                    d = dict(s_[1])
                    if ("const", repr("_index_cache")) in d:
                        okn = d[("const", repr("_index_cache"))] == ("const", "None")
                if s_[:1] == ("acc",) and s_[1] == "dict":
                    for c in s_[2]:
                        if c[0] == "kv" and c[2] == ("const", repr("_index_cache")):
                            okn = c[3] == ("const", "None")
    for ev, m in sx.calls_some(("call", OBJ_SETATTR, (S.SELF, ("const", repr("_index_cache")), S.V("v")), ())):
        okn = m["v"] == ("const", "None")
    col.add(rule, "Table.__init__#cache-starts-empty", okn, sx.loc(sx.fn), "a new table starts with no name cache", "")
    if repo.has_method("Table", "_invalidate_cache"):
        sx = sctx(repo, "Table", "_invalidate_cache")
        i = [ev.nid for ev, m in sx.calls_some(("call", OBJ_SETATTR, (S.SELF, ("const", repr("_index_cache")), ("const", "None")), ()))]
        col.add(rule, "Table._invalidate_cache#resets-index-cache", bool(i) and sx.cfg.must_pass(sx.cfg.ENTRY, sx.cfg.EXIT, i), sx.loc(sx.fn),
                "invalidation sets _index_cache to None unconditionally", "")
    sx = tctx(repo, "_get_cache")
    cfg = sx.cfg
    is_none = ("cmp", "is", S.sattr("_index_cache"), ("const", "None"))
    mk = sx.calls_some(S.mcall(S.SELF, "_make_cache"))
    okf = len(mk) == 1 and sx.conds(mk[0][0].nid) == (is_none,)
    sets = sx.calls_some(("call", OBJ_SETATTR, (S.SELF, S.V("k", lambda x: x in (("const", repr("_index_cache")), ("const", repr("_count_cache")))), S.V("v")), ()))
    fill = mk[0][0].term if mk else None
    okf = okf and len(sets) >= 2 and all(is_none in sx.conds(ev.nid) for ev, m in sets)
    if okf:
        vals = {m["k"][1].strip("'\""): m["v"] for ev, m in sets}
        okf = _is_item(vals.get("_index_cache"), fill, 0) and _is_item(vals.get("_count_cache"), fill, 1)
    rets = sx.of_kind("return")

    def _ret_ok(r):
        v = r.value
        if not (v[:1] == ("tuple",) and len(v[1]) == 2):
            return False
        filled = is_none in sx.conds(r.nid)
        for comp, attr, i in ((v[1][0], "_index_cache", 0), (v[1][1], "_count_cache", 1)):
            # the attribute itself, or -- on the path that has just filled it -- the value stored into it
            if not (comp == S.sattr(attr) or (filled and fill is not None and _is_item(comp, fill, i))):
                return False
        return True
    okf = okf and bool(rets) and all(_ret_ok(r) for r in rets)
    col.add(rule, "Table._get_cache#lazy-fill-when-None", okf, sx.loc(sx.fn),
            "the cache is (re)built from the current column exactly when _index_cache is None, and both dictionaries come from the same fill", "")


def _item_form(t):
    """f(..)[0] and the first name of `a, b = f(..)` are the same component of the call's result"""
    if not isinstance(t, tuple):
        return t
    t = tuple(_item_form(x) for x in t)
    if t[:1] == ("sub",) and len(t) == 3 and S.is_call_of(t[1]) and t[2][:1] == ("const",) and t[2][1].lstrip("-").isdigit():
        return ("item", t[1], int(t[2][1]))
    return t


def _row_resolution(sx: SCtx, row_from):
    """alternatives of the row index used to subscript the column in a cell access, with the row selector abstracted"""
    out = set()
    hits = []
    for ev in sx.events:
        tms = []
        if ev.kind == "return" and ev.value is not None:
            tms = [ev.value]
        elif ev.kind == "store":
            tms = [ev.target]
        for tm in tms:
            for a in S.alts(tm):
                if a[:1] == ("sub",) and any(x[:1] == ("sub",) and x[1] == DATA for x in S.alts(a[1])):
                    idx = a[2]
                    rows = (("item", row_from, 1), ("sub", row_from, ("const", "1")))
                    insts = [i for i in S.instances(idx, 64) if any(x in rows for x in S.subterms(i))]
                    if not insts:
                        continue    # not a cell access by (col, row): e.g. the whole-column write self._data[key][:] = v
                    hits.append(ev)
                    for i in insts:
                        i = _item_form(i)
                        out.add(S.show(S.subst(i, {("item", row_from, 1): ("glob", "ROW"), ("sub", row_from, ("const", "1")): ("glob", "ROW")}), False))
    # the resolution alternatives may sit in one expression or be spread over several returns / stores
    if len(out) < 3:
        return set(), []
    return out, hits


def _get_set_agreement(col, rule="C07.R2"):
    repo = col.repo
    g = tctx(repo, "__getitem__")
    s = tctx(repo, "__setitem__")
    rg, hg = _row_resolution(g, g.P(0))
    rs, hs = _row_resolution(s, s.P(0))
    if not rg or not rs:
        raise AnalysisError("Table.__getitem__/__setitem__: cell access `self._data[col][<resolved row>]` not recognised (cannot decide)")
    col.add(rule, "Table.__getitem__~__setitem__#same-row-resolution", rg == rs, s.loc(hs[0]) if hs else s.loc(s.fn),
            "reading and writing a cell resolve the row selector by the same computations",
            "" if rg == rs else f"only when reading: {sorted(rg - rs)[:3]}; only when writing: {sorted(rs - rg)[:3]}")
    named = [x for x in rg if "ROW" in x and "_get_row_indices" not in x and x != "ROW"]
    through = all(("_get_row_cache_raise" in x) or (".get(" in x and "_get_cache()" in x) for x in named)
    col.add(rule, "Table.__getitem__#resolution-steps", through and bool(named), g.loc(hg[0]) if hg else g.loc(g.fn),
            "a named row is looked up in the cache and otherwise resolved by the raising resolver", f"{sorted(named)[:4]}")


def _miss_never_subscripts(col, rule="C07.R2"):
    """`idx = cache.get(key)` is None on a miss: every path from there to `column[idx]` either re-resolves idx or has tested it
    against None (numpy reads `column[None]` as a new axis: the read returns, the write overwrites, the whole column)"""
    repo = col.repo
    n = 0
    for meth in ("__getitem__", "__setitem__"):
        sx = tctx(repo, meth)
        cfg = sx.cfg
        for nid, nd in cfg.nodes.items():
            st = nd.ast
            if nd.kind != "stmt" or not (isinstance(st, ast.Assign) and len(st.targets) == 1 and isinstance(st.targets[0], ast.Name)):
                continue
            v = st.value
            if not (isinstance(v, ast.Call) and isinstance(v.func, ast.Attribute) and v.func.attr == "get" and len(v.args) == 1 and not v.keywords):
                continue
            name = st.targets[0].id
            term = sx.sym.of(v, nid)
            redefs = [d.nid for k, ds in sx.cx.rd.defs.items() for d in ds if d.name == name and d.kind == "assign" and d.nid != nid]
            known = sx.branches(("cmp", "is not", term, ("const", "None")))
            uses = [u for u, un in cfg.nodes.items() if un.kind == "stmt" and un.ast is not None and any(
                isinstance(x, ast.Subscript) and isinstance(x.slice, ast.Name) and x.slice.id == name for x in ast.walk(un.ast))]
            if not uses:
                continue
            n += 1
            bad = [u for u in uses if cfg.path_avoiding(nid, u, redefs + known)]
            col.add(rule, f"Table.{meth}#cache-miss-never-used-as-index:{name}", not bad, sx.loc(bad[0]) if bad else sx.loc(nid),
                    "the result of the cache lookup subscripts the column only after it was tested against None (or replaced by the resolver's answer)",
                    f"`{name}` may still be None at {[sx.loc(b) for b in bad[:2]]}")
    col.count("cache_fast_paths", n)      # none left (the fast path removed or moved into the resolver): nothing to judge here


def _int_of_split(t, name, sep, part=1):
    """t == int(<name>.split(self.<sep>, 1)[part])"""
    return S.is_call_of(t, ("glob", "int")) and len(t[2]) == 1 and t[2][0][:1] == ("item",) and t[2][0][2] == part and \
        S.is_call_of(t[2][0][1], meth="split") and t[2][0][1][2][:1] == (S.sattr(sep),) and t[2][0][1][2][1:] in ((("const", "1"),), ())


def _parser(col, rule="C07.R3"):
    repo = col.repo
    sx = tctx(repo, "_split_name_count_offset")
    rets = sx.of_kind("return")
    if not rets or any(not (r.value[:1] == ("tuple",) and len(r.value[1]) == 3) for r in rets):
        raise AnalysisError("Table._split_name_count_offset: does not return a (name, count, offset) tuple (cannot decide)")
    roles, seps_used = {}, set()
    for r in rets:
        name_t, count_t, off_t = r.value[1]
        for a in S.instances(off_t, 64):
            if a == ("const", "0"):
                roles.setdefault("none", True)
                continue
            sign, x = None, None
            if a[:1] in (("aug",), ("op",)) and a[1] in ("-", "+") and a[2] == ("const", "0"):
                sign, x = a[1], a[3]
            elif a[:1] == ("uop",) and a[1] == "-":
                sign, x = "-", a[2]
            elif S.is_call_of(a, ("glob", "int")):
                sign, x = "+", a
            elif a[:1] == ("op",) and a[1] == "*" and any(f_ in (("const", "1"), ("const", "-1"), ("uop", "-", ("const", "1"))) for f_ in (a[2], a[3])):
                # the sign as a constant factor: -1 * int(..), int(..) * 1
                fac, oth = (a[2], a[3]) if a[2][:1] in (("const",), ("uop",)) and not S.is_call_of(a[2]) else (a[3], a[2])
                sign, x = ("+" if fac == ("const", "1") else "-"), oth
            if x is not None and S.is_call_of(x, ("glob", "int")) and x[2] and x[2][0][:1] == ("item",) and S.is_call_of(x[2][0][1], meth="split"):
                sep = x[2][0][1][2][0] if x[2][0][1][2] else None
                which = "previous" if sep == S.sattr("_sep_previous") else "next" if sep == S.sattr("_sep_next") else None
                if which:
                    roles[which] = sign
                    seps_used.add(sep)
                    continue
            roles.setdefault("unrecognised", []).append(S.show(a)) if isinstance(roles.get("unrecognised", []), list) else None
        for a in S.instances(count_t, 64):
            if a == ("const", "None"):
                continue
            if S.is_call_of(a, ("glob", "int")) and a[2] and a[2][0][:1] == ("item",) and S.is_call_of(a[2][0][1], meth="split") \
                    and a[2][0][1][2][:1] == (S.sattr("_sep_count"),) and a[2][0][2] == 1:
                roles["count"] = True
            else:
                roles.setdefault("unrecognised", []).append(S.show(a))
    wrong = roles.get("previous") == "+" or roles.get("next") == "-"
    if not wrong and ("previous" not in roles or "next" not in roles or roles.get("count") is not True):
        raise AnalysisError("Table._split_name_count_offset: how name, count and offset are split off is not recognised "
                            f"(recognised: {sorted(k for k in roles if k != 'unrecognised')}) -- cannot decide")
    col.add(rule, "Table._split_name_count_offset#previous-decreases", roles.get("previous") == "-", sx.loc(sx.fn),
            "`name<<k` (previous) subtracts k from the offset", str(roles))
    col.add(rule, "Table._split_name_count_offset#next-increases", roles.get("next") == "+", sx.loc(sx.fn),
            "`name>>k` (next) adds k to the offset", str(roles))
    col.add(rule, "Table._split_name_count_offset#separators", roles.get("count") is True and not roles.get("unrecognised"), sx.loc(sx.fn),
            "count and offset come from splitting once on the table's own three separators (nothing else contributes)", str(roles))
    # ---- _get_row_cache
    sx = tctx(repo, "_get_row_cache")
    row_p, cnt_p, off_p = sx.P(0), sx.P(1), sx.P(2)
    cache = S.mcall(S.SELF, "_get_cache")
    rets = sx.of_kind("return")
    ok_ret, ok_cnt, ok_look, facts = bool(rets), True, True, []
    shift = S.mcall(("item", cache, 1), "get", row_p, ("const", "0"))
    seen_some = False
    for r in rets:
        for a in S.alts(r.value):
            if a == ("const", "None"):
                continue
            m = S.match(a, ("op", "+", S.V("idx"), off_p))
            if m is None:
                ok_ret = False
                facts.append(f"returns {S.show(a)[:80]}")
                continue
            seen_some = True
            for idx in S.alts(m["idx"]):
                mm = S.match(idx, S.mcall(("item", cache, 0), "get", ("tuple", (row_p, S.V("cnt")))))
                if mm is None:
                    ok_look = False
                    facts.append(f"looks up {S.show(idx)[:80]}")
                    continue
                for cnt in S.instances(mm["cnt"], 64):
                    if cnt in (cnt_p, ("const", "0")):
                        continue
                    if cnt[:1] in (("aug",), ("op",)) and cnt[1] == "+" and cnt[2] in (cnt_p, ("const", "0")) and cnt[3] == shift:
                        continue
                    if cnt[:1] in (("aug",), ("op",)) and cnt[1] == "+" and cnt[2] in (cnt_p, ("const", "0")) and \
                            cnt[3] == ("sub", ("item", cache, 1), row_p):
                        col.fail("C08.R4" if col.prop == "C08" else rule, "Table._get_row_cache#absent-name-with-negative-count", sx.loc(r),
                                 "an absent name with a negative count is a miss (None), not a KeyError of the count dictionary", S.show(cnt))
                        continue
                    ok_cnt = False
                    facts.append(f"count becomes {S.show(cnt)[:80]}")
    col.add(rule, "Table._get_row_cache#offset-added-or-None", ok_ret and seen_some, sx.loc(sx.fn),
            "the result is the cached position plus the offset, or None when there is no such occurrence", "; ".join(facts[:2]))
    col.add(rule, "Table._get_row_cache#lookup-(name,count)", ok_look and seen_some, sx.loc(sx.fn), "the cache is looked up with (name, count)", "")
    # the shift applies exactly to negative counts
    shifted = [nid for nid in sx.cfg.nodes for d in sx.cx.rd.defs.get(nid, []) if d.name == cnt_p[2] and d.kind in ("aug", "assign")
               and S.contains(sx.sym.of(d.stmt.value, nid) if hasattr(d.stmt, "value") else ("opaque", ""), lambda t: S.is_call_of(t, meth="get") or t[:1] == ("sub",))]
    neg_ok = bool(shifted) and all(any(c[:1] == ("cmp",) and c[1] == "<" and c[3] == ("const", "0") for c in sx.conds(n)) for n in shifted)
    col.add(rule, "Table._get_row_cache#negative-count-from-last", ok_cnt and neg_ok, sx.loc(sx.fn),
            "a negative count is shifted by the number of occurrences of the name -- by addition, only when negative -- so that an "
            "out-of-range negative count stays a miss", "; ".join(facts[:2]))
    sx = tctx(repo, "_get_row_cache_raise")
    row_p = sx.P(0)
    idx = ("call", ("attr", S.SELF, "_get_row_cache"), S.V("a"), S.V("k"))
    raises = sx.of_kind("raise")
    okk = len(raises) == 1 and S.is_call_of(raises[0].value, ("glob", "KeyError"))
    if okk:
        cs = sx.conds(raises[0].nid)
        okk = len(cs) == 1 and S.match(cs[0], ("cmp", "is", idx, ("const", "None"))) is not None
    rets = sx.of_kind("return")
    okk = okk and bool(rets) and all(S.match(r.value, idx) is not None for r in rets)
    col.add(rule, "Table._get_row_cache_raise#KeyError-when-absent", okk, sx.loc(sx.fn),
            "no such occurrence raises KeyError; otherwise the position found by _get_row_cache is returned", "")
    # (name,) and (name, count) tuples rely on the defaults: first occurrence, no shift; and the arguments are handed on in order
    fn0 = repo.method("Table", "_get_row_cache_raise")
    ps = A.params(fn0)[1:]
    dflt = dict(zip(reversed(ps), reversed([A.src(d) for d in fn0.args.defaults])))
    if len(ps) != 3:
        raise AnalysisError("Table._get_row_cache_raise: expected (row, count, offset) parameters (cannot decide)")
    okd = dflt.get(ps[1]) in ("0", "None") and dflt.get(ps[2]) == "0"
    col.add(rule, "Table._get_row_cache_raise#defaults-first-occurrence-no-shift", okd, sx.loc(sx.fn),
            "a tuple (name,) or (name, count) means the first occurrence / no offset: the omitted arguments default to 0", str(dflt))
    passes = [m for r in rets for m in [S.match(r.value, idx)] if m is not None]
    okp = bool(passes) and all(tuple(m["a"]) == (sx.P(0), sx.P(1), sx.P(2)) and not m["k"] or
                               (tuple(m["a"]) + tuple(v for _k, v in m["k"])) == (sx.P(0), sx.P(1), sx.P(2)) and [k for k, _v in m["k"]] == ps[len(m["a"]):]
                               for m in passes)
    col.add(rule, "Table._get_row_cache_raise#arguments-handed-on-in-order", okp, sx.loc(sx.fn),
            "(row, count, offset) reach _get_row_cache as (row, count, offset)", S.show(rets[0].value)[:80] if rets else "")


def _entry_points(col, rule="C07.R4"):
    repo = col.repo
    sx = tctx(repo, "_get_row_index")
    row = sx.P(0)
    sp = S.mcall(S.SELF, "_split_name_count_offset", row)
    want = {
        "str": S.mcall(S.SELF, "_get_row_cache_raise", ("item", sp, 0), ("item", sp, 1), ("item", sp, 2)),
        "tuple": ("call", ("attr", S.SELF, "_get_row_cache_raise"), (("uop", "*", row),), ()),
        "int": row,
    }
    want_alt = {"str": ("call", ("attr", S.SELF, "_get_row_cache_raise"), (("uop", "*", sp),), ())}
    got = {}
    for r in sx.of_kind("return"):
        cs = sx.conds(r.nid)
        kinds = set()
        for c in cs:
            m = S.match(c, S.fcall("isinstance", row, S.V("t")))
            if m is not None and m["t"][:1] == ("glob",):
                kinds.add(m["t"][1])
            elif m is not None and m["t"][:1] == ("tuple",):
                # isinstance(row, (str, tuple)) together with `not isinstance(row, str)` leaves tuple
                names = [x[1] for x in m["t"][1] if x[:1] == ("glob",)]
                rest = [n for n in names if ("uop", "not", S.fcall("isinstance", row, ("glob", n))) not in cs]
                if len(rest) == 1:
                    kinds.add(rest[0])
                elif any(S.fcall("isinstance", row, ("glob", n)) in cs for n in names):
                    pass
        for k in kinds:
            got[k] = r.value
    ok = all(got.get(k) == v or (k in want_alt and got.get(k) == want_alt[k]) for k, v in want.items())
    col.add(rule, "Table._get_row_index#resolver", ok, sx.loc(sx.fn),
            "string rows are parsed and resolved by the raising resolver; tuple rows go to it directly; integers are positions",
            str({k: S.show(v)[:60] for k, v in got.items()}))
    sx = tctx(repo, "__floordiv__")
    rets = sx.of_kind("return")
    col.add(rule, "Table.__floordiv__#resolver", bool(rets) and all(r.value == S.mcall(S.SELF, "_get_row_index", sx.P(0)) for r in rets), sx.loc(sx.fn),
            "`table // row` resolves through _get_row_index", "")
    sx = sctx(repo, "_RowView", "get_index")
    rets = sx.of_kind("return")
    col.add(rule, "_RowView.get_index#resolver", bool(rets) and all(r.value == S.mcall(S.sattr("table"), "_get_row_index", sx.P(0)) for r in rets), sx.loc(sx.fn),
            "rows.get_index resolves through Table._get_row_index", "")
    sx = sctx(repo, "_ColView", "get_index_unique")
    ok = bool(sx.calls_some(S.mcall(S.sattr("table"), "_make_cache")))
    col.add(rule, "_ColView.get_index_unique#from-current-column", ok, sx.loc(sx.fn),
            "the unique row labels are computed from the current index column (not from a stored copy)", "")
    # (Table.show prints such labels too; printing is not part of this property -- an obligation on it alarmed on a mutant of the
    #  empty-table branch of show() in the second-generation self-test and was withdrawn)
    sx = tctx(repo, "_make_cache")
    ok = False
    for ev in sx.of_kind("store"):
        tp = S.template(ev.value) if ev.value is not None else None
        if tp and len(tp[1]) == 3 and tp[0] == "{}{}{}" and tp[1][1][1] == S.sattr("_sep_count"):
            ok = True
    col.add(rule, "Table._make_cache#labels-use-count-separator", ok, sx.loc(sx.fn),
            "unique labels are name + the table's count separator + occurrence, the form the parser splits", "")
    # the cache dictionaries are consumed only by the resolver: any other reader would bypass the count normalisation
    t = repo.cls("Table")
    readers = []
    seen = set()
    for name, fn in t.methods.items():
        if id(fn) in seen or name in t.properties:
            continue
        seen.add(id(fn))
        if _private_helper(name):
            continue
        sx = tctx(repo, name)
        for ev in sx.events:
            tms = [ev.term] if ev.kind == "call" else [x for x in (ev.value, ev.target) if x is not None]
            for tm in tms:
                for s_ in S.subterms(tm):
                    if s_[:1] == ("item",) and S.is_call_of(s_[1], meth="_get_cache") or s_ in (S.sattr("_index_cache"), S.sattr("_count_cache")):
                        readers.append((name, sx.loc(ev)))
    allowed = {"_get_cache", "_get_row_cache", "__getitem__", "__setitem__", "_invalidate_cache", "__init__"}
    foreign = sorted({(n, l) for n, l in readers if n not in allowed})
    col.add(rule, "Table#cache-read-only-through-resolver", not foreign, foreign[0][1] if foreign else "xdeps/table.py",
            "the cache dictionaries are read only by _get_row_cache (and the (row, 0) / tuple fast path of the cell accessors): every "
            "other lookup goes through the resolver, which normalises negative counts and offsets", str(foreign))


def _make_cache(col, rule="C07.R5"):
    repo = col.repo
    sx = tctx(repo, "_make_cache")
    col_t = ("sub", DATA, INDEX)
    el = ("elem", col_t)
    rets = sx.of_kind("return")
    if not rets or any(not (r.value[:1] == ("tuple",) and len(r.value[1]) == 3) for r in rets):
        raise AnalysisError("Table._make_cache: return is not a 3-tuple (cannot decide)")
    okd = okc = ok0 = False
    facts = []
    occ_terms = []
    for r in rets:
        dct, cnt, names = r.value[1]
        if dct[:1] == ("acc",) and dct[1] == "dict":
            for c in dct[2]:
                if c[0] == "kv" and not c[1] and c[2][:1] == ("tuple",) and len(c[2][1]) == 2 and c[2][1][0] == el and c[3] == ("index", col_t):
                    okd = True
                    for cc in S.instances(c[2][1][1], 16):
                        m = S.match(cc, ("op", "+", ("call", ("attr", S.ANY, "get"), (el, S.V("d")), ()), S.V("k")))
                        m0 = S.match(cc, ("call", ("attr", S.ANY, "get"), (el, S.V("d")), ()))
                        if m is not None and m["d"][:1] == ("const",) and m["k"][:1] == ("const",):
                            try:
                                ok0 = int(m["d"][1]) + int(m["k"][1]) == 0
                            except ValueError:
                                ok0 = False
                            facts.append(S.show(cc)[-40:])
                            occ_terms.append(cc)
                        elif m0 is not None and m0["d"][:1] == ("const",):
                            # the number of earlier occurrences, read straight from the running count
                            ok0 = m0["d"] == ("const", "0")
                            facts.append(S.show(cc)[-40:])
                            occ_terms.append(cc)
                        elif cc == ("const", "0"):
                            ok0 = True
        if cnt[:1] == ("acc",) and cnt[1] == "dict":
            for c in cnt[2]:
                if c[0] == "kv" and c[2][:1] == ("key",) and S.match(c[3], ("op", "+", ("val", S.ANY), ("const", "1"))) is not None and not c[1]:
                    okc = True
                # ... or kept as a running count in the scan itself: count[name] = <this row's occurrence number> + 1
                if c[0] == "kv" and c[2] == el and not c[1] and occ_terms and S.match(
                        c[3], ("op", "+", ("call", ("attr", S.ANY, "get"), (el, ("const", "0")), ()), ("const", "1"))) is not None:
                    okc = True
            if S.is_call_of(cnt, ("attr", ("glob", "dict"), "fromkeys")):
                okc = False
    # the labels `name<sep>k` are longer than the names: the array they are written into must not inherit a fixed item width
    def _is_obj(t):
        return t in (("glob", "object"), ("const", "'object'"), ("const", "'O'"), ("const", '"object"'), ("const", '"O"'))
    for r in rets:
        names = r.value[1][2]
        for nm in S.alts(names):
            kws = dict(nm[3]) if nm[:1] == ("call",) else {}
            dt = kws.get("dtype")
            f = nm[1] if nm[:1] == ("call",) else None
            fname = f[2] if f and f[:1] == ("attr",) else f[1] if f and f[:1] == ("glob",) else None
            mentions_col = any(x == col_t for x in S.subterms(nm))
            if nm[:1] in (("acc",), ("list",)) or (dt is not None and _is_obj(dt)) or (fname == "astype" and nm[2] and _is_obj(nm[2][0])):
                verdict = True
            elif nm[:1] == ("call",) and (
                    (fname in ("copy", "array", "asarray", "zeros_like", "empty_like", "full_like", "ones_like") and mentions_col and dt is None)
                    or (dt is not None and (dt == ("glob", "str") or (dt[:1] == ("const",) and dt[1].strip("'\"")[:1] in ("U", "S", "<", ">"))
                                            or dt == ("attr", col_t, "dtype")))):
                verdict = False
            else:
                raise AnalysisError(f"Table._make_cache: the array of unique labels `{S.show(nm)[:80]}` is not a recognised construction (cannot decide)")
            col.add(rule, "Table._make_cache#labels-not-width-limited", verdict, sx.loc(r),
                    "the unique labels go into an object array (or a list): an array that inherits the item width of the index column truncates "
                    "`name<sep>k` back to a prefix", S.show(nm)[:100])
    col.add(rule, "Table._make_cache#scans-current-index-column", okd, sx.loc(sx.fn),
            "the cache is built from self._data[self._index]: for every row, unconditionally, (name, occurrence) maps to the row's position", "")
    col.add(rule, "Table._make_cache#first-occurrence-is-0", ok0, sx.loc(sx.fn),
            "the first occurrence of a name gets occurrence number 0 ('name' == 'name::0')", "; ".join(facts[:2]))
    col.add(rule, "Table._make_cache#count=last-occurrence+1", okc, sx.loc(sx.fn),
            "the stored count of a name is its last occurrence number + 1", "")
    col.add(rule, "Table._make_cache#single-result-path", len(rets) == 1, sx.loc(sx.fn), "the cache has one construction path",
            f"{len(rets)} return statements", note=len(rets) != 1)


def _derived_tables_parse_alike(col, rule="C07.R3"):
    """a table derived from this one (rows[...], cols[...], -t, copies) splits `name::count<<k` with this table's separators"""
    from .c14 import _ctor_calls, ctor_kwargs
    repo = col.repo
    n = 0
    for meth in ("_select", "_select_rows", "_select_cols", "_copy"):
        sx = tctx(repo, meth)
        for ev, a in _ctor_calls(sx):
            kw = ctor_kwargs(repo, a)
            n += 1
            bad = [f"{k}={S.show(kw[k], False)}" for k in ("sep_count", "sep_previous", "sep_next") if k in kw and kw[k] != S.sattr("_" + k)]
            missing = [k for k in ("sep_count", "sep_previous", "sep_next") if k not in kw]
            if missing and "**" in kw:
                raise AnalysisError(f"Table.{meth}: the separators handed to the derived table are not visible (cannot decide)")
            col.add(rule, f"Table.{meth}#derived-table-keeps-the-separators", not bad and not missing, sx.loc(ev),
                    "the derived table receives sep_count / sep_previous / sep_next of its source, each under its own parameter",
                    "; ".join(bad + [f"{k} left at its default" for k in missing]))
    if n == 0:
        raise AnalysisError("Table._select*/_copy: no constructor call of the derived table found (cannot decide)")


def _is_self_attr(n, names=None):
    return isinstance(n, ast.Attribute) and isinstance(n.value, ast.Name) and n.value.id == "self" and (names is None or n.attr in names)


def _cache_written_only_by_its_builder(col, rule="C07.R5"):
    """the row-name cache holds exactly what _make_cache computed from the index column: nothing else adds, replaces or removes an
    entry of the dictionaries _get_cache() hands out (an entry added elsewhere is either already there or names no row)"""
    repo = col.repo
    mod = repo.cls("Table").module
    MUT = ("update", "setdefault", "pop", "popitem", "clear", "__setitem__", "__delitem__")
    n_fn = n_use = 0
    for c in mod.classes.values():
        for mname, fn in c.methods.items():
            if mname in ("_make_cache",):
                continue
            n_fn += 1
            tracked = set()

            def from_cache(e):
                if isinstance(e, ast.Subscript):
                    return from_cache(e.value)
                if isinstance(e, ast.Call) and isinstance(e.func, ast.Attribute) and e.func.attr == "_get_cache":
                    return True
                if isinstance(e, ast.Attribute) and e.attr in ("_index_cache", "_count_cache"):
                    return True
                return isinstance(e, ast.Name) and e.id in tracked
            changed = True
            while changed:
                changed = False
                for n in ast.walk(fn):
                    if isinstance(n, ast.Assign) and from_cache(n.value):
                        for t in n.targets:
                            for x in (t.elts if isinstance(t, (ast.Tuple, ast.List)) else [t]):
                                if isinstance(x, ast.Name) and x.id not in tracked:
                                    tracked.add(x.id)
                                    changed = True
            n_use += bool(tracked)
            for n in ast.walk(fn):
                bad = None
                if isinstance(n, (ast.Assign, ast.AugAssign, ast.Delete)):
                    tg = n.targets if not isinstance(n, ast.AugAssign) else [n.target]
                    for t in tg:
                        if isinstance(t, ast.Subscript) and from_cache(t.value):
                            bad = n
                elif isinstance(n, ast.Call) and isinstance(n.func, ast.Attribute) and n.func.attr in MUT and from_cache(n.func.value):
                    bad = n
                if bad is not None:
                    col.add(rule, f"{c.name}.{mname}#cache-entries-only-from-_make_cache", False, mod.loc(bad),
                            "only _make_cache decides what the row-name cache holds", A.src(bad)[:80], positive=True)
    if n_use < 3:
        raise AnalysisError("row-name cache: fewer than 3 functions take the cache from _get_cache() -- anchor lost, cannot decide")
    col.ok(rule, "Table#cache-entries-only-from-_make_cache", mod.loc(repo.cls("Table").node),
           "only _make_cache decides what the row-name cache holds", f"{n_fn} functions of xdeps/table.py scanned, {n_use} take the cache")


def _is_item(t, whole, i) -> bool:
    """component i of the tuple `whole`: by unpacking (`a, b = whole`) or by position (`whole[i]`)"""
    return t == ("item", whole, i) or t == ("sub", whole, ("const", str(i)))


def _memo_inputs_invalidate(col, rule="C07.R1"):
    """whatever a Table method keeps on the table between calls (the row-name cache, or any other memo attribute) is computed only from
    table settings whose assignment invalidates the caches: a memo that read another setting answers for the old one after it changed"""
    repo = col.repo
    T = repo.cls("Table")
    init = T.methods.get("__init__")
    inv = T.methods.get("_invalidate_cache")
    seti = T.methods.get("__setitem__")
    if init is None or inv is None or seti is None:
        raise AnalysisError("Table.__init__/_invalidate_cache/__setitem__ missing -- cannot decide")
    params = {a.arg for a in init.args.args + init.args.kwonlyargs}
    from .common import init_attribute_table
    table = init_attribute_table(repo, "Table")
    if "_index" not in table:
        raise AnalysisError("Table.__init__: the table of initial attributes is not recognised -- cannot decide")
    settings, memos = set(), set()
    for k, v in table.items():
        if isinstance(v, ast.Name) and v.id in params:
            settings.add(k)
        elif (isinstance(v, ast.Constant) and v.value is None) or (isinstance(v, (ast.Dict, ast.List, ast.Set)) and not (getattr(v, "keys", None) or getattr(v, "elts", None))) \
                or (isinstance(v, ast.Call) and isinstance(v.func, ast.Name) and v.func.id in ("dict", "list", "set", "defaultdict", "OrderedDict")):
            memos.add(k)
    for n in ast.walk(inv):
        if isinstance(n, ast.Call) and A.dotted(n.func) == "object.__setattr__" and len(n.args) == 3 and isinstance(n.args[1], ast.Constant):
            memos.add(n.args[1].value)
        if isinstance(n, ast.Attribute) and isinstance(n.ctx, ast.Store) and _is_self_attr(n):
            memos.add(n.attr)
    if not {"_index_cache", "_count_cache"} <= memos or not {"_index", "_sep_count", "_sep_previous", "_sep_next"} <= settings:
        raise AnalysisError(f"Table: memo attributes {sorted(memos)} / settings {sorted(settings)} not as expected -- cannot decide")
    # the names whose assignment drops the caches (read off the normal form of __setitem__, as rule R1 does)
    ssx = tctx(repo, "__setitem__")
    key = ssx.P(0)
    invalidating = set()
    for i_ in _invalidations(ssx):
        for c in ssx.conds(i_):
            for p_ in (list(c[2]) if (c[:1] == ("bool",) and c[1] == "or") else [c]):
                if p_[:1] == ("cmp",) and p_[1] == "==":
                    for a, b in ((p_[2], p_[3]), (p_[3], p_[2])):
                        if a == key and b[:1] == ("const",) and b[1][:1] in ("'", '"'):
                            invalidating.add(b[1][1:-1])
                if p_[:1] == ("cmp",) and p_[1] == "in" and p_[2] == key and p_[3][:1] in (("tuple",), ("list",), ("set",)):
                    invalidating |= {x[1][1:-1] for x in p_[3][1] if x[:1] == ("const",) and x[1][:1] in ("'", '"')}
    if not invalidating:
        raise AnalysisError("Table.__setitem__: which attribute names drop the caches is not recognised -- cannot decide")

    def reads(name, depth=3, seen=None):
        seen = seen if seen is not None else {name}
        sx_ = tctx(repo, name)
        out = {}
        for n in ast.walk(sx_.fn):
            if _is_self_attr(n, settings) and isinstance(n.ctx, ast.Load):
                out.setdefault(n.attr, sx_.loc(n))
            if depth and isinstance(n, ast.Call) and _is_self_attr(n.func) and n.func.attr in T.methods and n.func.attr not in seen \
                    and n.func.attr not in T.properties:
                seen.add(n.func.attr)
                for k_, v_ in reads(n.func.attr, depth - 1, seen).items():
                    out.setdefault(k_, sx_.loc(n))
        return out
    n_writers = 0
    for mname, fn in T.methods.items():
        if mname in ("__init__", "_invalidate_cache", "__setstate__") or mname in T.properties or (_private_helper(mname)):
            continue
        sx_ = tctx(repo, mname)
        wrote = set()
        for ev, m in sx_.calls_some(("call", OBJ_SETATTR, (S.SELF, S.V("k"), S.V("v")), ())):
            if m["k"][:1] == ("const",) and m["k"][1][1:-1] in memos and m["v"] != ("const", "None"):
                wrote.add(m["k"][1][1:-1])
        for ev in sx_.of_kind("store"):
            for t_ in S.alts(ev.target):
                if t_[:1] == ("sub",) and S.is_attr(t_[1], S.SELF) and t_[1][2] in memos:
                    wrote.add(t_[1][2])
        for ev, m in sx_.calls_some(("call", ("attr", S.V("o", lambda t_: S.is_attr(t_, S.SELF) and t_[2] in memos),
                                              S.V("m", lambda t_: t_ in ("update", "setdefault", "__setitem__"))), S.ANY, S.ANY)):
            wrote.add(m["o"][2])
        if not wrote:
            continue
        n_writers += 1
        rd = reads(mname)
        stale = sorted(set(rd) - invalidating)
        col.add(rule, f"Table.{mname}#memo-reads-only-invalidating-settings", not stale, rd[stale[0]] if stale else sx_.loc(sx_.fn),
                f"what {mname} keeps in {sorted(wrote)} depends only on settings whose assignment drops the caches ({sorted(invalidating)})",
                f"reads {sorted(rd)}; not invalidating: {stale}")
    if n_writers < 1:
        raise AnalysisError("Table: no method fills the row-name cache -- anchor lost, cannot decide")


def check(col: Collector):
    with col.rule():
        _cache_written_only_by_its_builder(col)
    with col.rule():
        _memo_inputs_invalidate(col)
    with col.rule():
        _derived_tables_parse_alike(col)
    with col.rule():
        _invalidate_on_write(col)
    with col.rule():
        _get_set_agreement(col)
    with col.rule():
        _miss_never_subscripts(col)
    with col.rule():
        _parser(col)
    with col.rule():
        _entry_points(col)
    with col.rule():
        _make_cache(col)
