"""C07 -- table rows addressed by name resolve against the current index column."""
from __future__ import annotations

import ast
from typing import List, Optional

from .. import astutil as A
from ..core import AnalysisError, Collector
from .common import FnCtx, fnctx, has_guard, is_method_call, is_self_call

PROP = "C07"
FLOORS = {"C07.R1": 8, "C07.R2": 2, "C07.R3": 4, "C07.R4": 6, "C07.R5": 5}
META = {
    "explanation": "The (name, occurrence) -> position lookup is a lazily filled cache. Its inputs are the fields its fill function reads "
                   "(the index column data, `_index`, `_sep_count`). Writer inventory over every method of Table: each statement that can "
                   "store into the index column (directly, through an alias of self._data[K], by rebinding self._data[K], or through the "
                   "generic object.__setattr__ of __setitem__) must be followed on every path by an invalidation that executes whenever the "
                   "column written is the index column, or be preceded by one with no cache fill in between. Plus: get/set resolve rows by "
                   "the same computation; the name::count<<offset parser's sign roles; negative counts shifted by the occurrence count; "
                   "absent -> None -> KeyError; all entry points end in the same resolver; shape of the cache fill.",
    "decides": "coherence of the name cache under every API write (invalidate-on-write), agreement of the resolvers",
    "not_decided": "that the cache numbers occurrences correctly for all data (loop invariant over data) beyond the constants checked",
    "assumptions": ["numpy column arrays are mutated only through the Table API (excluded: writes to t._data[...] arrays from outside)"],
}

CACHE_FILLERS = {"_get_cache", "_get_row_cache", "_get_row_cache_raise", "_get_row_index", "_get_row_indices", "_get_regexp_indices", "_make_view"}
EXEMPT_METHODS = {
    "__init__": "constructs the table; sets the cache fields to None (checked)",
    "__setstate__": "restores a complete, consistent __dict__",
    "__delitem__": "column removal: no index column left to resolve against if it is the index",
    "pop": "column removal",
}


def _inval_nodes(cx: FnCtx) -> List[int]:
    out = cx.call_nodes(lambda c: is_self_call(c, "_invalidate_cache"))
    out += cx.call_nodes(lambda c: A.call_name(c) == "object.__setattr__" and len(c.args) == 3 and A.dotted(c.args[0]) == "self"
                         and A.const(c.args[1]) == "_index_cache" and A.is_none(c.args[2]))
    return sorted(set(out))


def _fill_nodes(cx: FnCtx) -> List[int]:
    return cx.call_nodes(lambda c: is_self_call(c) and c.func.attr in CACHE_FILLERS)


def _write_sites(cx: FnCtx):
    """[(nid, key expr or None, description)] for stores that may hit the index column / cache inputs of `self`"""
    fn = cx.fn
    # aliases of self._data[K]
    alias = {}
    for n in A.walk(fn):
        if isinstance(n, ast.Assign) and len(n.targets) == 1 and isinstance(n.targets[0], ast.Name):
            v = n.value
            if isinstance(v, ast.Subscript) and A.dotted(v.value) == "self._data":
                alias[n.targets[0].id] = v.slice
    out = []
    for nid, node in cx.cfg.nodes.items():
        if node.kind != "stmt":
            continue
        st = node.ast
        targets = []
        if isinstance(st, ast.Assign):
            targets = st.targets
        elif isinstance(st, ast.AugAssign):
            targets = [st.target]
        for t in targets:
            if isinstance(t, ast.Subscript):
                base = t.value
                if A.dotted(base) == "self._data":
                    out.append((nid, t.slice, f"rebinds self._data[{A.src(t.slice)}]"))
                elif isinstance(base, ast.Subscript) and A.dotted(base.value) == "self._data":
                    out.append((nid, base.slice, f"stores into self._data[{A.src(base.slice)}][...]"))
                elif isinstance(base, ast.Name) and base.id in alias:
                    # the alias may have been assigned from the key's own name (col = self._data[col]): report the key as seen at the alias site
                    out.append((nid, alias[base.id], f"stores into `{base.id}` = self._data[{A.src(alias[base.id])}]"))
        for c in cx.calls_at(nid):
            if A.call_name(c) == "object.__setattr__" and len(c.args) == 3 and A.dotted(c.args[0]) == "self":
                k = c.args[1]
                if isinstance(k, ast.Constant):
                    if k.value in ("_index", "_sep_count", "_data"):
                        out.append((nid, None, f"object.__setattr__(self, {k.value!r}, ...)"))
                else:
                    out.append((nid, None, f"object.__setattr__(self, {A.src(k)}, ...) with a computed attribute name"))
            if isinstance(c.func, ast.Attribute) and c.func.attr in ("update", "__setitem__", "setdefault") and A.dotted(c.func.value) == "self._data":
                out.append((nid, None, f"self._data.{c.func.attr}(...)"))
    return out


def _invalidate_on_write(col, rule="C07.R1"):
    repo = col.repo
    t = repo.cls("Table")
    seen = set()
    n_sites = 0
    for name, fn in t.methods.items():
        if id(fn) in seen:
            continue
        seen.add(id(fn))
        cx = FnCtx(t.module, t, fn)
        sites = _write_sites(cx)
        if not sites:
            continue
        if name in EXEMPT_METHODS:
            col.ok(rule, f"Table.{name}#exempt", cx.loc(fn), f"writer exempt: {EXEMPT_METHODS[name]}", "")
            continue
        if name == "_update":
            # identity write: data = self._data when the table exists, values come from iterating data.items()
            ident = any(isinstance(n, ast.Assign) and A.target_names(n.targets[0]) == [A.params(fn)[1]] and A.dotted(n.value) == "self._data"
                        for n in A.walk(fn))
            loops = [n for n in A.walk(fn) if isinstance(n, ast.For) and A.src(n.iter) == f"{A.params(fn)[1]}.items()"]
            okw = ident and len(loops) == 1
            if okw:
                nm, val = A.target_names(loops[0].target)
                okw = all(isinstance(cx.cfg.nodes[nid].ast, ast.Assign) and A.dotted(cx.cfg.nodes[nid].ast.value) == val for nid, _, _ in sites)
            col.add(rule, "Table._update#identity-write", okw, cx.loc(fn),
                    "_update re-stores the table's own columns (values come from iterating self._data.items()): no data changes", "")
            continue
        inval = _inval_nodes(cx)
        fills = _fill_nodes(cx)
        cfg = cx.cfg
        for nid, key, desc in sites:
            n_sites += 1
            computed_attr = "computed attribute name" in desc
            w_guards = {g.id for g in cfg.guards(nid)}

            def key_test(g, at):
                if computed_attr:
                    return _is_attr_name_test(g)
                return _is_index_key_test(g, key, cx, at)
            # invalidations that fire whenever the key is the index column (guards beyond those of the write itself are key tests)
            good = []
            for i in inval:
                extra = [g for g in cfg.guards(i) if not isinstance(g.ast, ast.For) and g.id not in w_guards]
                if all(key_test(g, i) for g in extra):
                    good.append(i)
            # branches on which the key is known not to be the index column
            skips = []
            for n in cfg.nodes.values():
                if n.kind == "F":
                    fake = type("G", (), {"kind": "T", "ast": n.ast, "id": n.id, "of": n.of})()
                    if not isinstance(n.ast, ast.For) and key_test(fake, n.id):
                        skips.append(n.id)
            after_ok = bool(good) and cfg.must_pass(nid, cfg.EXIT, good + skips) and any(cfg.path_avoiding(nid, i, []) for i in good)
            before_ok = False
            why = ""
            if not after_ok:
                pre = [i for i in good if cfg.path_avoiding(i, nid, [])]
                before_ok = bool(pre) and cfg.must_pass(cfg.ENTRY, nid, pre + skips)
                refill = [f for f in fills if any(cfg.path_avoiding(i, f, []) for i in pre) and cfg.path_avoiding(f, nid, [])]
                if before_ok and refill:
                    before_ok = False
                    why = ("the cache is refilled between the invalidation and the write (the row is resolved by name first): "
                           f"{[cx.loc(f) for f in refill][:3]}")
                elif not before_ok:
                    why = "no invalidation that fires for the index column follows, or precedes, this write on every path" + \
                          (f" (invalidations present: {[cx.loc(i) for i in inval]})" if inval else " (no invalidation in this method)")
            col.add(rule, f"Table.{name}#write:{desc}", after_ok or before_ok, cx.loc(nid),
                    "a write that may hit the index column (or `_index`/`_sep_count`) is followed -- or preceded without an intervening "
                    "cache fill -- by an invalidation of the name cache that fires whenever the index column is the one written", why)
    col.count("table_write_sites", n_sites)
    # fresh tables start with an empty cache; invalidation resets it; fill is lazy on `is None`
    cx = fnctx(repo, "Table", "__init__")
    okn = False
    for n in A.walk(cx.fn):
        if isinstance(n, ast.Dict):
            d = {A.const(k): v for k, v in zip(n.keys, n.values)}
            if "_index_cache" in d:
                okn = A.is_none(d["_index_cache"])
    col.add(rule, "Table.__init__#cache-starts-empty", okn, cx.loc(cx.fn), "a new table starts with no name cache", "")
    if repo.has_method("Table", "_invalidate_cache"):
        cx = fnctx(repo, "Table", "_invalidate_cache")
        i = _inval_nodes(cx)
        col.add(rule, "Table._invalidate_cache#resets-index-cache", bool(i) and cx.cfg.must_pass(cx.cfg.ENTRY, cx.cfg.EXIT, i), cx.loc(cx.fn),
                "invalidation sets _index_cache to None unconditionally", "")
    cx = fnctx(repo, "Table", "_get_cache")
    cfg = cx.cfg
    mk = cx.call_nodes(lambda c: is_self_call(c, "_make_cache"))
    def none_test(t):
        p = A.compare_parts(t)
        return bool(p and isinstance(p[1], ast.Is) and A.dotted(p[0]) == "self._index_cache" and A.is_none(p[2]))
    okf = len(mk) == 1 and has_guard(cfg, mk[0], "T", none_test) and len(cfg.guards(mk[0])) == 1
    sets = cx.call_nodes(lambda c: A.call_name(c) == "object.__setattr__" and A.const(c.args[1]) in ("_index_cache", "_count_cache"))
    okf = okf and len(sets) >= 2 and all(has_guard(cfg, s, "T", none_test) for s in sets)
    rets = [n.ast.value for n in cfg.nodes.values() if n.kind == "stmt" and isinstance(n.ast, ast.Return)]
    okf = okf and len(rets) == 1 and A.src(rets[0]) == "(self._index_cache, self._count_cache)"
    col.add(rule, "Table._get_cache#lazy-fill-when-None", okf, cx.loc(cx.fn),
            "the cache is (re)built from the current column exactly when _index_cache is None, and both dictionaries come from the same fill", "")


def _is_attr_name_test(g) -> bool:
    """taken branch covers attribute names `_index` and `_sep_count` (the cache inputs that are attributes)"""
    if g.kind != "T":
        return False
    t = g.ast
    alts = t.values if isinstance(t, ast.BoolOp) and isinstance(t.op, ast.Or) else [t]
    names = set()
    for a in alts:
        p = A.compare_parts(a)
        if p and isinstance(p[1], ast.Eq):
            for side in (p[0], p[2]):
                if isinstance(side, ast.Constant) and isinstance(side.value, str):
                    names.add(side.value)
        if p and isinstance(p[1], ast.In) and isinstance(p[2], (ast.Tuple, ast.List, ast.Set)):
            names |= {A.const(e) for e in p[2].elts}
    return {"_index", "_sep_count"} <= names


def _is_index_key_test(g, key, cx: FnCtx, at: int) -> bool:
    """guard `g` (taken branch) holds whenever the written key equals self._index (or a cache-input attribute name)"""
    t = g.ast
    if g.kind != "T":
        return False
    alts = t.values if isinstance(t, ast.BoolOp) and isinstance(t.op, ast.Or) else [t]
    for a in alts:
        p = A.compare_parts(a)
        if p and isinstance(p[1], ast.Eq):
            l, _, r = p
            sides = {A.src(l), A.src(r)}
            if "self._index" in sides:
                other = (sides - {"self._index"})
                if not other:
                    continue
                o = next(iter(other))
                if key is None:
                    return True
                ks = A.src(key)
                if o == ks:
                    return True
                # the key name may have been saved before being shadowed: colname = col ; col = self._data[col]
                if isinstance(key, ast.Name):
                    for n in A.walk(cx.fn):
                        if isinstance(n, ast.Assign) and A.target_names(n.targets[0]) == [o] and A.dotted(n.value) == ks:
                            return True
                        if isinstance(n, ast.Assign) and isinstance(n.targets[0], (ast.Tuple,)) and ks in A.target_names(n.targets[0]) and o == ks:
                            return True
    return False


def _get_set_agreement(col, rule="C07.R2"):
    repo = col.repo
    g = repo.method("Table", "__getitem__")
    s = repo.method("Table", "__setitem__")

    def resolution(fn):
        """the if/elif chain on the row selector"""
        for n in A.walk(fn):
            if isinstance(n, ast.If) and A.src(n.test) == "isinstance(row, str)":
                return n
        return None
    rg, rs = resolution(g), resolution(s)
    if rg is None or rs is None:
        helper = [c for c in A.calls(g) if is_self_call(c) and c.func.attr.startswith("_") and "row" in c.func.attr]
        helper_s = [c for c in A.calls(s) if is_self_call(c) and c.func.attr.startswith("_") and "row" in c.func.attr]
        same = bool(helper) and bool(helper_s) and {c.func.attr for c in helper} & {c.func.attr for c in helper_s}
        if not same:
            raise AnalysisError("Table.__getitem__/__setitem__: row resolution chain not recognised (cannot decide)")
        col.ok(rule, "Table.__getitem__~__setitem__#same-row-resolution", "xdeps/table.py", "both resolve rows through one helper", "")
        return
    col.add(rule, "Table.__getitem__~__setitem__#same-row-resolution", A.alpha(rg) == A.alpha(rs), repo.cls("Table").module.loc(rs),
            "reading and writing a cell resolve the row selector by the same computation", "the two selector chains differ" if A.alpha(rg) != A.alpha(rs) else "")
    # fast path: cache.get((row, 0)) then the parser, raising resolver
    ok = not A.has_fragments(g, ["{L}.get(({L}, 0))", "self._split_name_count_offset({L})", "self._get_row_cache_raise({L}, {L}, {L})",
                                 "self._get_row_cache_raise(*{L})", "{L}.get({L})"])
    col.add(rule, "Table.__getitem__#resolution-steps", ok, repo.cls("Table").module.loc(rg),
            "a string row is looked up as (row, 0) and otherwise parsed into name/count/offset and resolved by the raising resolver; "
            "a tuple row is looked up directly and otherwise resolved by the raising resolver", "")


def _parser(col, rule="C07.R3"):
    repo = col.repo
    cx = fnctx(repo, "Table", "_split_name_count_offset")
    cfg = cx.cfg
    augs = [n for n in cfg.nodes.values() if n.kind == "stmt" and isinstance(n.ast, ast.AugAssign) and A.dotted(n.ast.target) == "offset"]
    roles = {}
    for n in augs:
        for g in cfg.guards(n.id):
            if g.kind == "T":
                s = A.src(g.ast)
                if "_sep_previous" in s:
                    roles["previous"] = type(n.ast.op).__name__
                elif "_sep_next" in s:
                    roles["next"] = type(n.ast.op).__name__
    col.add(rule, "Table._split_name_count_offset#previous-decreases", roles.get("previous") == "Sub", cx.loc(cx.fn),
            "`name<<k` (previous) subtracts k from the offset", str(roles))
    col.add(rule, "Table._split_name_count_offset#next-increases", roles.get("next") == "Add", cx.loc(cx.fn),
            "`name>>k` (next) adds k to the offset", str(roles))
    splits = [c for c in A.calls(cx.fn) if isinstance(c.func, ast.Attribute) and c.func.attr == "split"]
    seps = [A.src(c.args[0]) for c in splits if c.args]
    ok = sorted(seps) == ["self._sep_count", "self._sep_next", "self._sep_previous"] and all(len(c.args) == 2 and A.is_const(c.args[1], 1) for c in splits)
    col.add(rule, "Table._split_name_count_offset#separators", ok, cx.loc(cx.fn),
            "the parser splits once on each of the table's three separators", str(seps))
    rets = [n.ast.value for n in cfg.nodes.values() if n.kind == "stmt" and isinstance(n.ast, ast.Return)]
    col.add(rule, "Table._split_name_count_offset#returns", len(rets) == 1 and isinstance(rets[0], ast.Tuple) and len(rets[0].elts) == 3, cx.loc(cx.fn),
            "returns (name, count, offset)", "")
    inits = {A.target_names(n.targets[0])[0]: n.value for n in A.walk(cx.fn) if isinstance(n, ast.Assign) and len(A.target_names(n.targets[0])) == 1}
    # _get_row_cache
    cx = fnctx(repo, "Table", "_get_row_cache")
    cfg = cx.cfg
    P = A.params(cx.fn)
    row_p, cnt_p, off_p = P[1], P[2], P[3]
    neg = [n for n in cfg.nodes.values() if n.kind == "stmt" and isinstance(n.ast, ast.AugAssign) and A.dotted(n.ast.target) == cnt_p]
    okn = len(neg) == 1 and isinstance(neg[0].ast.op, ast.Add)
    if okn:
        v = neg[0].ast.value
        def lt0(t):
            p = A.compare_parts(t)
            return bool(p and isinstance(p[1], ast.Lt) and A.dotted(p[0]) == cnt_p and A.is_const(p[2], 0))
        okn = has_guard(cfg, neg[0].id, "T", lt0) and len(cfg.guards(neg[0].id)) == 1
        src_ok = (isinstance(v, ast.Call) and isinstance(v.func, ast.Attribute) and v.func.attr == "get" and A.dotted(v.args[0]) == row_p
                  and len(v.args) == 2 and A.is_const(v.args[1], 0)) or \
            (isinstance(v, ast.Subscript) and A.dotted(v.slice) == row_p)
        okn = okn and src_ok
        if isinstance(v, ast.Subscript):
            col.fail("C08.R4" if col.prop == "C08" else rule, "Table._get_row_cache#absent-name-with-negative-count", cx.loc(neg[0].id),
                     "an absent name with a negative count is a miss (None), not a KeyError of the count dictionary", A.src(v))
    col.add(rule, "Table._get_row_cache#negative-count-from-last", okn, cx.loc(cx.fn),
            "a negative count is shifted by the number of occurrences of the name (only when negative)", "")
    rets = [n.ast.value for n in cfg.nodes.values() if n.kind == "stmt" and isinstance(n.ast, ast.Return)]
    okr = len(rets) == 1 and isinstance(rets[0], ast.IfExp) and A.src(rets[0].body) in (f"idx + {off_p}", f"{off_p} + idx") and A.is_none(rets[0].orelse) \
        and A.src(rets[0].test) == "idx is not None"
    col.add(rule, "Table._get_row_cache#offset-added-or-None", okr, cx.loc(cx.fn),
            "the result is the cached position plus the offset, or None when there is no such occurrence", A.src(rets[0]) if rets else "")
    look = [c for c in A.calls(cx.fn) if isinstance(c.func, ast.Attribute) and c.func.attr == "get" and c.args and isinstance(c.args[0], ast.Tuple)]
    okl = len(look) == 1 and [A.dotted(e) for e in look[0].args[0].elts] == [row_p, cnt_p]
    col.add(rule, "Table._get_row_cache#lookup-(name,count)", okl, cx.loc(cx.fn), "the cache is looked up with (name, count)", "")
    cx = fnctx(repo, "Table", "_get_row_cache_raise")
    raises = [n for n in A.walk(cx.fn) if isinstance(n, ast.Raise)]
    okk = len(raises) == 1 and isinstance(raises[0].exc, ast.Call) and A.call_name(raises[0].exc) == "KeyError"
    if okk:
        nid = cx.cfg.node_of(raises[0])
        def is_none_t(t):
            p = A.compare_parts(t)
            return bool(p and isinstance(p[1], ast.Is) and A.is_none(p[2]))
        okk = has_guard(cx.cfg, nid, "T", is_none_t)
    col.add(rule, "Table._get_row_cache_raise#KeyError-when-absent", okk, cx.loc(cx.fn), "no such occurrence raises KeyError", "")


def _entry_points(col, rule="C07.R4"):
    repo = col.repo
    cx = fnctx(repo, "Table", "_get_row_index")
    ok = not A.has_fragments(cx.fn, ["self._split_name_count_offset({P1})", "self._get_row_cache_raise({L}, {L}, {L})", "self._get_row_cache_raise(*{P1})"])
    col.add(rule, "Table._get_row_index#resolver", ok, cx.loc(cx.fn),
            "string rows are parsed and resolved by the raising resolver; tuple rows go to it directly", "")
    cx = fnctx(repo, "Table", "__floordiv__")
    rets = [n.value for n in A.walk(cx.fn) if isinstance(n, ast.Return)]
    col.add(rule, "Table.__floordiv__#resolver", len(rets) == 1 and A.src(rets[0]) == f"self._get_row_index({A.params(cx.fn)[1]})", cx.loc(cx.fn),
            "`table // row` resolves through _get_row_index", "")
    cx = fnctx(repo, "_RowView", "get_index")
    rets = [n.value for n in A.walk(cx.fn) if isinstance(n, ast.Return)]
    col.add(rule, "_RowView.get_index#resolver", len(rets) == 1 and A.src(rets[0]) == f"self.table._get_row_index({A.params(cx.fn)[1]})", cx.loc(cx.fn),
            "rows.get_index resolves through Table._get_row_index", "")
    cx = fnctx(repo, "_ColView", "get_index_unique")
    ok = any(A.src(c) == "self.table._make_cache()" for c in A.calls(cx.fn))
    col.add(rule, "_ColView.get_index_unique#from-current-column", ok, cx.loc(cx.fn),
            "the unique row labels are computed from the current index column (not from a stored copy)", "")
    cx = fnctx(repo, "Table", "show")
    ok = any(A.src(c) == "self._make_cache()" for c in A.calls(cx.fn))
    col.add(rule, "Table.show#labels-from-current-column", ok, cx.loc(cx.fn), "show() prints labels computed from the current index column", "")
    cx = fnctx(repo, "Table", "_make_cache")
    fs = [n for n in A.walk(cx.fn) if isinstance(n, ast.JoinedStr)]
    ok = any([A.src(p.value) for p in f.values if isinstance(p, ast.FormattedValue)][1:2] == ["self._sep_count"] for f in fs)
    col.add(rule, "Table._make_cache#labels-use-count-separator", ok, cx.loc(cx.fn),
            "unique labels are name + the table's count separator + occurrence, the form the parser splits", "")


def _make_cache(col, rule="C07.R5"):
    repo = col.repo
    cx = fnctx(repo, "Table", "_make_cache")
    cfg = cx.cfg
    # the column scanned is the current index column
    colv = [n for n in A.walk(cx.fn) if isinstance(n, ast.Assign) and A.src(n.value) == "self._data[self._index]"]
    col.add(rule, "Table._make_cache#scans-current-index-column", len(colv) == 1, cx.loc(cx.fn),
            "the cache is built from self._data[self._index]", "")
    cname = A.target_names(colv[0].targets[0])[0] if colv else None
    rets = [n for n in cfg.nodes.values() if n.kind == "stmt" and isinstance(n.ast, ast.Return)]
    for r in rets:
        v = r.ast.value
        if not (isinstance(v, ast.Tuple) and len(v.elts) == 3):
            raise AnalysisError("Table._make_cache: return is not a 3-tuple (cannot decide)")
        cnt = cx.resolve(v.elts[1], r.id)
        dct = cx.resolve(v.elts[0], r.id)
        # constant-valued count dictionaries
        k = None
        if isinstance(cnt, ast.Call) and A.call_name(cnt) == "dict.fromkeys":
            k = A.const(cnt.args[1]) if len(cnt.args) == 2 else None
            col.add(rule, f"Table._make_cache#count-of-present-name>=1", k == 1, cx.loc(r.id),
                    "every name present in the column is recorded with its number of occurrences (at least 1): negative counts are "
                    "normalised by adding it", f"count dictionary is {A.src(cnt)}")
        elif isinstance(cnt, ast.DictComp) and isinstance(cnt.value, ast.Constant):
            col.add(rule, f"Table._make_cache#count-of-present-name>=1", cnt.value.value == 1, cx.loc(r.id),
                    "every name present in the column is recorded with its number of occurrences (at least 1)", A.src(cnt))
    # main construction: occurrence index of a first occurrence is 0, stored count is last index + 1
    gets = [c for c in A.calls(cx.fn) if isinstance(c.func, ast.Attribute) and c.func.attr == "get" and len(c.args) == 2 and isinstance(c.args[1], (ast.Constant, ast.UnaryOp))]
    occ = None
    for n in A.walk(cx.fn):
        if isinstance(n, ast.Assign) and isinstance(n.value, ast.BinOp) and isinstance(n.value.op, ast.Add) and n.value.left in gets and isinstance(n.value.right, ast.Constant):
            d = ast.literal_eval(n.value.left.args[1])
            occ = (A.target_names(n.targets[0])[0], d + n.value.right.value, n)
    if occ is None:
        raise AnalysisError("Table._make_cache: occurrence counter `cc = count.get(nn, D) + K` not recognised (cannot decide)")
    col.add(rule, "Table._make_cache#first-occurrence-is-0", occ[1] == 0, cx.module.loc(occ[2]),
            "the first occurrence of a name gets occurrence number 0 ('name' == 'name::0')", A.src(occ[2]))
    ccv = occ[0]
    # dct[(nn, cc)] = ii inside `for ii, nn in enumerate(col)`
    okd = False
    for f in (n for n in A.walk(cx.fn) if isinstance(n, ast.For)):
        if isinstance(f.iter, ast.Call) and A.call_name(f.iter) == "enumerate" and A.dotted(f.iter.args[0]) == cname:
            ii, nn = A.target_names(f.target)
            for n in A.walk(f):
                if isinstance(n, ast.Assign) and isinstance(n.targets[0], ast.Subscript) and isinstance(n.targets[0].slice, ast.Tuple):
                    okd = [A.dotted(e) for e in n.targets[0].slice.elts] == [nn, ccv] and A.dotted(n.value) == ii
            conds = [n for n in A.walk(f) if isinstance(n, (ast.If, ast.Break, ast.Continue))]
            okd = okd and not conds
    col.add(rule, "Table._make_cache#(name,occurrence)->position", okd, cx.loc(cx.fn),
            "for every row, unconditionally, (name, occurrence) maps to the row's position in the column", "")
    # final counts: count[nn] = cc + 1 over count.items()
    okc = False
    for f in (n for n in A.walk(cx.fn) if isinstance(n, ast.For)):
        if A.src(f.iter).endswith(".items()") and not A.src(f.iter).startswith("self"):
            tv = A.target_names(f.target)
            for n in f.body:
                if isinstance(n, ast.Assign) and isinstance(n.targets[0], ast.Subscript) and A.dotted(n.targets[0].slice) == tv[0] \
                        and isinstance(n.value, ast.BinOp) and isinstance(n.value.op, ast.Add) and A.dotted(n.value.left) == tv[1] and A.is_const(n.value.right, 1):
                    okc = True
    col.add(rule, "Table._make_cache#count=last-occurrence+1", okc, cx.loc(cx.fn),
            "the stored count of a name is its last occurrence number + 1", "")
    col.add(rule, "Table._make_cache#single-result-path", len(rets) == 1, cx.loc(cx.fn),
            "the cache has one construction path", f"{len(rets)} return statements (alternative paths are checked for constant counts only)", note=len(rets) != 1)


def check(col: Collector):
    _invalidate_on_write(col)
    _get_set_agreement(col)
    _parser(col)
    _entry_points(col)
    _make_cache(col)
