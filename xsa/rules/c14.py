"""C14 -- every Table the API produces is rectangular and leaves its source untouched."""
from __future__ import annotations

import ast

from .. import astutil as A
from .. import sym as S
from ..core import AnalysisError, Collector
from ..dataflow import MUTATORS
from .common import SCtx, sctx
from .c07 import DATA, INDEX, tctx, _private_helper

PROP = "C14"
FLOORS = {"C14.R1": 5, "C14.R2": 8, "C14.R3": 4, "C14.R4": 5, "C14.R5": 10, "C14.R6": 4, "C14.R7": 1, "C14.R8": 1}
META = {
    "explanation": "Escape/alias analysis on symbolic terms of the column lists and data dictionaries that reach unverified "
                   "(verify=False) constructors: the list handed over is fresh, never the source's own `_col_names` / `_data`; each "
                   "derivation applies one selector to every listed column and carries the scalar (non-column) entries over; row "
                   "repetition / concatenation joins along the row axis; the index column is forced into the derived column list; a "
                   "column or expression is read from the current data on every access (nothing remembered per expression); every "
                   "`self.<attr>` read in the table module's classes resolves to a declared attribute; derivation methods never "
                   "mutate the source's column list or data; the checked constructor tests lengths over the column list and the index "
                   "against the column list. _select takes every requested column from the one row view with eval(item, gblmath, view) as the fallback; requested items are never matched as regular expressions.",
    "decides": "no sharing of mutable structure between source and derived table; uniform selection; attribute existence; constructor checks",
    "not_decided": "lengths and values for all tables; sharing of numpy buffers between source and views (numpy semantics)",
    "assumptions": ["numpy fancy indexing returns arrays of the index's length"],
}

DERIVATIONS = [("Table", "_select"), ("Table", "_select_rows"), ("Table", "_select_cols"), ("Table", "__add__"), ("Table", "__mul__"),
               ("Table", "_copy"), ("Table", "_t"), ("Table", "concatenate"), ("_RowView", "_make_view"), ("_RowView", "__getitem__"),
               ("_ColView", "__getitem__"), ("Table", "__neg__"), ("_RowView", "reverse"), ("_RowView", "head"), ("_RowView", "tail")]
NAMES = S.sattr("_col_names")
NP = ("glob", "np")


def fresh(t) -> bool:
    """term denotes a newly created container (not an object reachable from an existing table)"""
    if t[:1] == ("alt",):
        return all(fresh(a) for a in t[1])
    if t[:1] in (("acc",), ("list",), ("dict",), ("tuple",), ("set",)):
        return True
    if S.is_call_of(t):
        f = t[1]
        if f in (("glob", "list"), ("glob", "dict"), ("glob", "sorted"), ("glob", "tuple"), ("glob", "set"), ("glob", "_View")):
            return True
        if f[:1] == ("attr",) and f[2] in ("copy", "split"):
            return True
    return False


def _ctor_calls(sx: SCtx):
    """constructor calls of a Table: Table(...), cls(...), self.__class__(...)"""
    out = []
    for ev in sx.events:
        if ev.kind != "call":
            continue
        for a in S.alts(ev.term):
            f = a[1]
            if f in (("glob", "Table"), ("attr", S.SELF, "__class__")) or (f[:1] == ("param",) and f[2] == "cls") or \
                    (f[:1] == ("attr",) and f[2] == "__class__"):
                out.append((ev, a))
    return out


def ctor_kwargs(repo, a) -> dict:
    """arguments of a Table constructor call term by parameter name of Table.__init__, however they were passed"""
    names = A.params(repo.method("Table", "__init__"))[1:]
    out = {}
    for n, v in zip(names, a[2]):
        out[n] = v
    for k, v in a[3]:
        out[k] = v
    return out


def _table_methods(repo):
    m = repo.module("table")
    for cname, c in m.classes.items():
        seen = set()
        for name, fn in c.methods.items():
            if id(fn) in seen or name in c.properties and False:
                continue
            seen.add(id(fn))
            yield m, c, name, fn


def _no_aliasing(col, rule="C14.R1"):
    repo = col.repo
    n = 0
    for m, c, name, fn in _table_methods(repo):
        if not any(isinstance(x, ast.Call) for x in A.walk(fn)):
            continue
        src = A.src(fn)
        if "verify" not in src:
            continue
        sx = tctx(repo, name, c.name)
        for ev, a in _ctor_calls(sx):
            kws = dict(a[3])
            if kws.get("verify") != ("const", "False"):
                continue
            q = f"{c.name}.{name}"
            cn = kws.get("col_names")
            data0 = a[2][0] if a[2] else kws.get("data")
            def _root_param(x):
                while x is not None and x[:1] in (("attr",), ("sub",), ("item",)):
                    x = x[1]
                return x is not None and x[:1] == ("param",)
            if _private_helper(name) and any(_root_param(x) for x in (cn, data0)):
                continue    # a private helper that forwards its arguments: judged where it is inlined into its callers
            n += 1
            col.add(rule, f"{q}#fresh-column-list", cn is not None and fresh(cn), sx.loc(ev),
                    "the column list given to an unverified constructor is a fresh list (the derived table's column list is its own: "
                    "adding/removing/reordering columns there must not change the source)", S.show(cn)[:100] if cn is not None else "none")
            data = a[2][0] if a[2] else kws.get("data")
            col.add(rule, f"{q}#fresh-data-dict", data is not None and fresh(data), sx.loc(ev),
                    "the data mapping given to an unverified constructor is a fresh dict/view, not the source's own `_data`",
                    S.show(data)[:100] if data is not None else "none")
    col.count("unverified_constructor_calls", n)
    # what the constructor stores: verified -> copies; unverified -> as given (which is why the callers must pass fresh objects)
    sx = tctx(repo, "__init__")
    data_p, names_p = sx.pnamed("data"), sx.pnamed("col_names")
    stored = {}
    for ev in sx.events:
        for tm in ([ev.term] if ev.kind == "call" else [x for x in (ev.value,) if x is not None]):
            for s_ in S.subterms(tm):
                pairs = []
                if s_[:1] == ("dict",):
                    pairs = list(s_[1])
                elif s_[:1] == ("acc",) and s_[1] == "dict":
                    pairs = [(c_[2], c_[3]) for c_ in s_[2] if c_[0] == "kv"]
                for k, v in pairs:
                    if k in (("const", repr("_data")), ("const", repr("_col_names"))):
                        stored[k[1].strip("'\"")] = v
    okv = "_data" in stored and "_col_names" in stored
    if okv:
        okv = all(a == data_p or fresh(a) or (a[:1] == ("acc",)) for a in S.alts(stored["_data"])) and \
            any(a != data_p for a in S.alts(stored["_data"])) and \
            all(a == names_p or fresh(a) for a in S.alts(stored["_col_names"])) and any(a != names_p for a in S.alts(stored["_col_names"]))
    col.add(rule, "Table.__init__#verified-branch-copies", okv, sx.loc(sx.fn),
            "the checked constructor copies the data mapping and builds its own column list", str({k: S.show(v)[:80] for k, v in stored.items()}))
    sx = tctx(repo, "_copy")
    calls = _ctor_calls(sx)
    ok = len(calls) == 1 and calls[0][1][2] and calls[0][1][2][0] == S.mcall(DATA, "copy")
    col.add(rule, "Table._copy#copies-data-dict", ok, sx.loc(sx.fn), "_copy hands a copy of the data mapping to the constructor",
            S.show(calls[0][1])[:100] if calls else "")
    if calls:
        kws = dict(calls[0][1][3])
        verified = kws.get("verify") in (None, ("const", "True"))
        cn = kws.get("col_names")
        col.add(rule, "Table._copy#own-column-list", verified or (cn is not None and fresh(cn)), sx.loc(sx.fn),
                "the copy gets its own column list (the checked constructor builds one; an unverified one must be given a fresh list)",
                f"verify={S.show(kws.get('verify')) if kws.get('verify') else 'default'}, col_names={S.show(cn) if cn else None}")


def _data_arg_contribs(sx: SCtx):
    """kv contributions of the dict handed to the constructor in the returned table"""
    out = []
    for r in sx.of_kind("return"):
        for a in S.alts(r.value):
            if S.is_call_of(a) and a[2] and a[2][0][:1] == ("acc",) and a[2][0][1] == "dict":
                out.append((r, [c for c in a[2][0][2] if c[0] == "kv"]))
    return out


def _uniform(col, rule="C14.R2"):
    repo = col.repo
    scal = ("elem", ("call", ("attr", S.SELF, "keys"), (), (("exclude_columns", ("const", "True")),)))
    specs = {
        "_select_rows": lambda sx, k, v: k == ("elem", NAMES) and v == ("sub", ("sub", DATA, k), sx.P(0)),
        "_select_cols": lambda sx, k, v: k == ("elem", sx.P(0)) and v == ("sub", S.SELF, k),
        "_select": lambda sx, k, v: k[:1] == ("elem",) and all(x[:1] == ("sub",) and x[2] == k or S.is_call_of(x, ("glob", "eval")) and x[2][0] == k
                                                                for x in S.alts(v)),
    }
    for meth, pred in specs.items():
        sx = tctx(repo, meth)
        got = _data_arg_contribs(sx)
        if not got:
            raise AnalysisError(f"Table.{meth}: the data mapping of the derived table is not a dict built here (cannot decide)")
        for r, cs in got:
            cols_ok = [c for c in cs if pred(sx, c[2], c[3])]
            scalars = [c for c in cs if c[2] == scal and c[3] == ("sub", DATA, scal)]
            guarded = [c for c in cols_ok + scalars if c[1]]
            col.add(rule, f"Table.{meth}#columns-and-scalars", bool(cols_ok) and bool(scalars), sx.loc(r),
                    "every listed column gets the same selection and the scalar (non-column) entries are carried over",
                    f"{len(cols_ok)} column contributions, {len(scalars)} scalar contributions of {len(cs)}")
            col.add(rule, f"Table.{meth}#no-column-skipped", not guarded, sx.loc(r), "no column of the list is skipped",
                    str([[S.show(g) for _, g in c[1]] for c in guarded]))
            if meth == "_select":
                # the lookup and its expression fallback read the one row view (the whole table `self[cc]` has another length)
                bases = set()
                for c in cols_ok:
                    if c in scalars:
                        continue
                    for x in (c[3][1] if c[3][:1] == ("alt",) else (c[3],)):
                        bases.add(x[1] if x[:1] == ("sub",) else (x[2][2] if len(x[2]) > 2 else ("const", "None")))
                okb = len(bases) == 1 and S.SELF not in bases
                col.add(rule, "Table._select#columns-read-from-the-row-view", okb, sx.loc(r),
                        "each requested column -- stored or computed from an expression -- is taken from the same row-restricted view, so all "
                        "have the selection's length", str(sorted(S.show(b)[:60] for b in bases)))
    sx = tctx(repo, "keys")
    want = ("op", "-", S.fcall("set", DATA), S.fcall("set", NAMES))
    rets = [r for r in sx.of_kind("return") if sx.pnamed("exclude_columns") in sx.conds(r.nid)]
    col.add(rule, "Table.keys#scalars=data-minus-columns", bool(rets) and all(r.value == want for r in rets), sx.loc(sx.fn),
            "the scalar entries are the data keys that are not columns", S.show(rets[0].value) if rets else "")
    # repetition / concatenation along the row axis, for every column
    sx = tctx(repo, "__mul__")
    res = S.mcall(S.SELF, "_copy")
    rcol = ("sub", ("attr", res, "_data"), ("elem", ("attr", res, "_col_names")))
    st = [e for e in sx.of_kind("store") if e.target == rcol]
    ok, facts = bool(st), ""
    for e in st:
        v = e.value
        ok_v = S.is_call_of(v, ("attr", NP, "concatenate")) and len(v[2]) >= 1 and \
            S.match(v[2][0], ("op", "*", ("list", (rcol,)), sx.P(0))) is not None
        if not ok_v:
            if S.is_call_of(v) and v[1][:1] == ("attr",) and v[1][1] == NP and v[1][2] in ("tile", "repeat", "resize", "hstack", "append"):
                ok, facts = False, f"rows are repeated with np.{v[1][2]} (not along the row axis for columns with more than one dimension)"
            elif S.is_call_of(v, ("attr", NP, "concatenate")):
                ok_v = S.contains(v, lambda t: t == rcol)
                ok = ok and ok_v
                facts = S.show(v)[:100]
            else:
                raise AnalysisError(f"Table.__mul__: unrecognised repetition {S.show(v)[:80]} (cannot decide)")
        if sx.conds(e.nid):
            ok, facts = False, "conditional"
    col.add(rule, "Table.__mul__#every-column", ok, sx.loc(sx.fn),
            "repetition joins `num` copies of every column of the column list along the row axis (np.concatenate)", facts)
    col.add(rule, "Table.__mul__#on-a-copy", all(r.value == res for r in sx.of_kind("return")) and bool(sx.of_kind("return")), sx.loc(sx.fn),
            "`*` repeats a copy", "")
    sx = tctx(repo, "_concatenate_table")
    other = sx.P(0)
    k = ("elem", ("attr", other, "_col_names"))
    st = [e for e in sx.of_kind("store") if e.target == ("sub", DATA, k)]
    want = S.fcall(("attr", NP, "concatenate"), ("list", (("sub", DATA, k), ("sub", ("attr", other, "_data"), k))))
    want2 = S.fcall(("attr", NP, "concatenate"), ("tuple", (("sub", DATA, k), ("sub", ("attr", other, "_data"), k))))
    col.add(rule, "Table._concatenate_table#every-column", bool(st) and all(e.value in (want, want2) and not sx.conds(e.nid) for e in st), sx.loc(sx.fn),
            "concatenation is applied to every column of the column list, own rows first", S.show(st[0].value)[:100] if st else "")
    sx = tctx(repo, "__add__")
    rets = sx.of_kind("return")
    COPY = S.mcall(S.SELF, "_copy")
    joins = [ev.nid for ev in sx.of_kind("call") if S.is_call_of(ev.term, meth="_concatenate_table") and ev.term[1][1] == COPY
             and S.call_args(ev.term, ("table",)) == (sx.P(0),)]

    def _on_copy(r):
        if S.is_call_of(r.value, meth="_concatenate_table") and r.value[1][1] == COPY and S.call_args(r.value, ("table",)) == (sx.P(0),):
            return True
        # ... or the copy itself, extended on the way (the in-place append hands its receiver back)
        return r.value == COPY and bool(joins) and sx.cfg.must_pass(sx.cfg.ENTRY, r.nid, joins)
    col.add(rule, "Table.__add__#on-a-copy", bool(rets) and all(_on_copy(r) for r in rets),
            sx.loc(sx.fn), "`+` concatenates onto a copy of the left table", "")
    sx = tctx(repo, "__len__")
    rets = sx.of_kind("return")
    ok = bool(rets) and all(S.match(r.value, S.fcall("len", ("sub", DATA, ("sub", NAMES, S.ANY)))) is not None for r in rets)
    col.add(rule, "Table.__len__#length-of-first-column", ok, sx.loc(sx.fn), "len(table) is the length of a listed column", "")


def _expressions(col, rule="C14.R2"):
    repo = col.repo
    sx = tctx(repo, "__getitem__")
    args = sx.P(0)
    is_str = S.fcall("isinstance", args, ("glob", "str"))
    allowed = (("sub", DATA, args), S.fcall("eval", args, ("glob", "gblmath"), DATA))
    rets = [r for r in sx.of_kind("return") if is_str in sx.conds(r.nid)]
    if not rets:
        raise AnalysisError("Table.__getitem__: no branch for a single column name / expression (cannot decide)")
    bad = [S.show(a)[:80] for r in rets for a in S.alts(r.value) if a not in allowed]
    col.add(rule, "Table.__getitem__#column-expression-fallback", not bad and len({a for r in rets for a in S.alts(r.value)}) == 2, sx.loc(rets[0]),
            "a string is looked up as a column and otherwise evaluated as an expression over the *current* columns (numpy ufunc "
            "namespace), on every access (nothing is remembered per expression)", str(bad))
    # every expression evaluation: eval(<the requested item>, gblmath, <the columns (or the row view of them)>)
    n_eval = 0
    for meth in ("__getitem__", "_select"):
        ex = tctx(repo, meth)
        for ev, m in ex.calls_some(("call", ("glob", "eval"), S.V("a"), S.V("k"))):
            n_eval += 1
            a = m["a"]
            ns_ok = len(a) == 3 and not m["k"] and a[1] == ("glob", "gblmath")
            cols_ok = len(a) == 3 and all(any(y == DATA for y in S.subterms(x)) for x in S.alts(a[2]))
            if len(a) == 3 and not cols_ok and a[2] != ("glob", "gblmath") and a[2] != a[0] and a[2][:1] != ("const",):
                raise AnalysisError(f"Table.{meth}: the local namespace of eval, `{S.show(a[2])[:60]}`, is not recognisably the columns (cannot decide)")
            item_ok = len(a) == 3 and a[0] != ("glob", "gblmath") and any(not any(x == DATA for x in S.subterms(alt)) for alt in S.alts(a[0]))
            col.add(rule, f"Table.{meth}#expression-evaluated-over-the-columns", ns_ok and cols_ok and item_ok, ex.loc(ev),
                    "a column expression is evaluated as eval(item, gblmath, columns): numpy's element-wise functions as globals, the table's "
                    "columns (or their row view) as locals", S.show(ev.term)[:100])
    if n_eval < 2:
        raise AnalysisError("Table.__getitem__/_select: the eval(...) fallbacks for column expressions were not found (cannot decide)")
    # _select looks the item up in a plain mapping first: without the eval fallback an expression column cannot be selected
    ex = tctx(repo, "_select")
    for r, cs in _data_arg_contribs(ex):
        colc = [c for c in cs if c[2][:1] == ("elem",) and not S.is_call_of(c[2][1], meth="keys")]
        has_eval = any(S.is_call_of(x, ("glob", "eval")) for c in colc for x in S.alts(c[3]))
        plain = any(x[:1] == ("sub",) and DATA in S.alts(x[1]) for c in colc for x in ((c[3],) if c[3][:1] != ("alt",) else c[3][1]))
        if plain:
            col.add(rule, "Table._select#expression-fallback", has_eval, ex.loc(r),
                    "an item that is not a stored column is evaluated as an expression (the lookup in the data mapping alone raises KeyError)", "")
    sx = tctx(repo, "_select_cols")
    ok = any(c[3] == ("sub", S.SELF, c[2]) for r, cs in _data_arg_contribs(sx) for c in cs)
    col.add(rule, "Table._select_cols#expressions-via-getitem", ok, sx.loc(sx.fn),
            "column selection evaluates each requested name/expression through table[...]", "")


def _regex_uses(sx: SCtx, root, repo=None, cls=None, depth=2) -> list:
    """calls that interpret a value derived from `root` as a regular expression"""
    out = []
    for ev in sx.of_kind("call"):
        t = ev.term
        if t[:1] != ("call",):
            continue
        f = t[1]
        is_re = (f[:1] == ("attr",) and f[1] == ("glob", "re") and f[2] in ("compile", "match", "fullmatch", "search", "findall", "finditer", "sub", "split")) \
            or (f[:1] == ("attr",) and f[2] in ("fullmatch",))
        if not is_re:
            continue
        args = list(t[2]) + [v for _k, v in t[3]]
        if any(x == root for a in args for x in S.subterms(a)):
            out.append(ev)
    # a helper that was not inlined (several exits inside a try, ...): follow the value into it
    if depth > 0 and cls is not None:
        for ev in sx.of_kind("call"):
            t = ev.term
            if t[:1] == ("call",) and t[1][:1] == ("attr",) and t[1][1] == S.SELF and t[1][2] in repo.cls(cls).methods and t[1][2].startswith("_") \
                    and not t[1][2].startswith("__"):
                for i, a in enumerate(t[2]):
                    if any(x == root for x in S.subterms(a)):
                        try:
                            hx = tctx(repo, t[1][2], cls)
                        except AnalysisError:
                            continue
                        if len(hx.sym.params) > i:
                            out += _regex_uses(hx, hx.P(i), repo, cls, depth - 1)
    return out


def _no_pattern_columns(col, rule="C14.R2"):
    """a requested column item is a stored name or an expression ('a+b', 'x.*y' are arithmetic): it is never matched as a pattern"""
    repo = col.repo
    ctl = tctx(repo, "_get_regexp_indices")
    if not _regex_uses(ctl, ctl.P(0)):
        raise AnalysisError("positive control: the regular-expression use in Table._get_regexp_indices is not recognised (cannot decide)")
    for cls, meth, pname in (("_ColView", "__getitem__", "cols"), ("Table", "_select_cols", None), ("Table", "_select", "cols")):
        sx = tctx(repo, meth, cls)
        root = sx.pnamed(pname) if pname else sx.P(0)
        uses = _regex_uses(sx, root, repo, cls)
        col.add(rule, f"{cls}.{meth}#column-items-not-matched-as-patterns", not uses, sx.loc(uses[0]) if uses else sx.loc(sx.fn),
                "requested column items go to the name lookup / expression evaluation as they are; none is expanded as a regular expression "
                "over the column names (an expression such as 'a+b' would silently select a column named 'aab')",
                S.show(uses[0].term)[:100] if uses else "", positive=True)


def _index_forced(col, rule="C14.R3"):
    repo = col.repo
    for cls, meth, idx in (("Table", "_select", INDEX), ("Table", "_select_cols", INDEX), ("_ColView", "__getitem__", ("attr", S.sattr("table"), "_index"))):
        sx = tctx(repo, meth, cls)
        ins = sx.calls_some(("call", ("attr", S.V("l"), "insert"), (("const", "0"), idx), ()))
        ok = len(ins) == 1
        if ok:
            ev, m = ins[0]
            ok = any(c[:1] == ("cmp",) and c[1] == "not in" and c[2] == idx and (c[3] == m["l"] or S.alts(c[3]) == S.alts(m["l"])) for c in sx.conds(ev.nid))
            extra = [c for c in sx.conds(ev.nid) if not (c[:1] == ("cmp",) and c[1] == "not in") and c != ("cmp", "is not", idx, ("const", "None"))]
            ok = ok and not extra
        col.add(rule, f"{cls}.{meth}#index-column-forced", ok, sx.loc(sx.fn),
                "the index column is inserted into the derived column list whenever it is missing from it", "")
    sx = tctx(repo, "_select_cols")
    ok = any(c[2] == INDEX and c[3] == ("sub", DATA, INDEX) for r, cs in _data_arg_contribs(sx) for c in cs)
    col.add(rule, "Table._select_cols#index-data-carried", ok, sx.loc(sx.fn), "the index column's data accompanies the forced index column", "")
    for meth in ("_select", "_select_rows", "_select_cols", "_copy"):
        sx = tctx(repo, meth)
        calls = _ctor_calls(sx)
        ok = bool(calls) and all(ctor_kwargs(repo, a).get("index") == INDEX for ev, a in calls)
        col.add(rule, f"Table.{meth}#same-index", ok, sx.loc(sx.fn), "a derived table keeps the source's index column name", "")


def _checked_ctor(col, rule="C14.R6"):
    repo = col.repo
    sx = tctx(repo, "__init__")
    verify = sx.pnamed("verify")
    index = sx.pnamed("index")
    raises = sx.of_kind("raise")

    def msg(r):
        return S.show(r.value) if r.value is not None else ""
    idx = [r for r in raises if "Index column" in msg(r)]
    ok, facts = len(idx) == 1 and verify in sx.conds(idx[0].nid), ""
    if ok:
        ok = False
        for c in sx.conds(idx[0].nid):
            if c[:1] == ("cmp",) and c[1] == "not in" and c[2] == index:
                facts = S.show(c)[:100]
                cont = c[3]
                ok = all(a[:1] == ("acc",) and a[1] == "list" or S.is_call_of(a, ("glob", "list")) for a in S.alts(cont)) and \
                    not any(a == sx.pnamed("data") for a in S.alts(cont))
    col.add(rule, "Table.__init__#index-among-columns", ok, sx.loc(idx[0]) if idx else sx.loc(sx.fn),
            "the checked constructor rejects an index that is not in the *column list* (an entry of the data mapping that is not a "
            "listed column does not count)", facts)
    ln = [r for r in raises if "different lengths" in msg(r)]
    ok = len(ln) == 1 and verify in sx.conds(ln[0].nid)
    if ok:
        ok = False
        for c in sx.conds(ln[0].nid):
            m = S.match(c, ("cmp", ">", S.fcall("len", S.V("s")), ("const", "1")))
            if m is not None:
                s_ = m["s"]
                inner = s_[2][0] if S.is_call_of(s_, ("glob", "set")) and s_[2] else s_
                ok = inner[:1] == ("acc",) and any(S.is_call_of(cc[2], ("glob", "len")) for cc in inner[2] if cc[0] == "one")
    col.add(rule, "Table.__init__#equal-lengths", ok, sx.loc(ln[0]) if ln else sx.loc(sx.fn),
            "the checked constructor rejects columns of different lengths (set of lengths over the column list has more than one element)", "")
    arr = [r for r in raises if "not a numpy array" in msg(r)]
    col.add(rule, "Table.__init__#columns-are-arrays", len(arr) == 1 and verify in sx.conds(arr[0].nid), sx.loc(sx.fn),
            "every listed column must be a numpy array", "")
    fn = repo.method("Table", "__init__")
    dflt = A.param_defaults(fn).get("verify")
    col.add(rule, "Table.__init__#verify-by-default", A.is_const(dflt, True), sx.loc(sx.fn), "the constructor checks by default", A.src(dflt))
    for meth in ("_t", "concatenate"):
        msx = tctx(repo, meth)
        calls = _ctor_calls(msx)
        ok = len(calls) == 1 and dict(calls[0][1][3]).get("verify") in (None, ("const", "True"))
        col.add(rule, f"Table.{meth}#through-checked-constructor", ok, msx.loc(msx.fn), f"{meth} builds its result with the checked constructor", "")


def _attrs(col, rule="C14.R4"):
    repo = col.repo
    m = repo.module("table")
    deriv = {f"{c}.{f}" for c, f in DERIVATIONS}
    for cname, c in m.classes.items():
        known = set(c.methods) | set(c.properties) | set(c.consts) | set(c.setters)
        for b in repo.mro(c)[1:]:
            known |= set(b.methods) | set(b.consts)
        for fn in c.methods.values():
            for n in A.walk(fn):
                if isinstance(n, (ast.Assign, ast.AugAssign, ast.AnnAssign)):
                    for t in (n.targets if isinstance(n, ast.Assign) else [n.target]):
                        a = A.self_attr(t)
                        if a:
                            known.add(a)
                if isinstance(n, ast.Call) and A.call_name(n) == "object.__setattr__" and len(n.args) == 3 and A.dotted(n.args[0]) == "self" \
                        and isinstance(n.args[1], ast.Constant):
                    known.add(n.args[1].value)
                if isinstance(n, ast.Dict) and fn.name == "__init__":
                    for k in n.keys:
                        if isinstance(k, ast.Constant) and isinstance(k.value, str):
                            known.add(k.value)
        known |= {"__class__", "__dict__"}
        if "__init__" in c.methods:
            from .common import init_attribute_table
            known |= set(init_attribute_table(repo, cname))
        seen = set()
        for fname, fn in c.methods.items():
            if id(fn) in seen:
                continue
            seen.add(id(fn))
            for n in A.walk(fn):
                a = A.self_attr(n) if isinstance(n, ast.Attribute) and isinstance(n.ctx, ast.Load) else None
                if a and a not in known:
                    guarded = any(isinstance(x, ast.Call) and A.call_name(x) == "hasattr" and len(x.args) == 2 and A.const(x.args[1]) == a for x in A.walk(fn))
                    if guarded:
                        continue
                    q = f"{cname}.{fname}"
                    is_deriv = q in deriv
                    col.add(rule, f"{q}#attribute:{a}", False, m.loc(n),
                            f"`self.{a}` resolves to an attribute, method or property that {cname} declares",
                            f"{cname} declares no `{a}`" + ("" if is_deriv else " (not a derivation method: cross-reference only)"),
                            note=not is_deriv)
    for c, f in DERIVATIONS:
        if repo.has_method(c, f):
            fn = repo.method(c, f)
            if not any(o.rule == rule and o.construct.startswith(f"{c}.{f}#") for o in col.obs):
                col.ok(rule, f"{c}.{f}#attributes-exist", m.loc(fn), "every self.<attr> read in this derivation method is declared", "")


def _rooted_in_source(t) -> bool:
    """term is (part of) the source table's column list or data mapping"""
    roots = (NAMES, DATA, ("attr", S.sattr("table"), "_col_names"), ("attr", S.sattr("table"), "_data"))
    while True:
        if t in roots:
            return True
        if t[:1] == ("sub",):
            t = t[1]
            continue
        return False


def _no_source_mutation(col, rule="C14.R5"):
    repo = col.repo
    for c, f in DERIVATIONS:
        if not repo.has_method(c, f):
            continue
        sx = tctx(repo, f, c)
        bad = []
        for ev in sx.events:
            if ev.kind == "call":
                for a in S.alts(ev.term):
                    if a[1][:1] == ("attr",) and a[1][2] in MUTATORS and any(x in (NAMES, DATA, ("attr", S.sattr("table"), "_col_names"),
                                                                                    ("attr", S.sattr("table"), "_data")) for x in S.alts(a[1][1])):
                        bad.append(S.show(a)[:70])
            elif ev.kind in ("store", "del"):
                for t in S.alts(ev.target):
                    if t[:1] == ("sub",) and any(_rooted_in_source(x) for x in S.alts(t[1])):
                        bad.append(("del " if ev.kind == "del" else "") + S.show(t)[:70])
                    if t in (NAMES, DATA):
                        bad.append(S.show(t))
        col.add(rule, f"{c}.{f}#source-not-mutated", not bad, sx.loc(sx.fn),
                "a derivation never mutates the source's column list or data mapping (directly or through an alias)", str(bad))


COPYING = ("array", "copy", "list", "tuple", "sorted", "zeros", "empty", "arange", "where", "nonzero", "concatenate", "deepcopy", "astype")


def _selector_not_mutated(col, rule="C14.R5"):
    """a selector handed to a row / column selection may be a column of the source (or a view of one): the selection never writes
    into it -- `np.asarray(row)` is the caller's array, `np.array(row)` a copy"""
    repo = col.repo
    n = 0
    for f in ("_get_row_indices", "_get_row_index", "_select_rows", "_select_cols", "_select", "_get_regexp_indices"):
        if not repo.has_method("Table", f):
            continue
        sx = tctx(repo, f)
        n += 1
        bad = []
        for ev in sx.of_kind("store"):
            for t in S.alts(ev.target):
                if t[:1] != ("sub",):
                    continue
                for base in S.alts(t[1]):
                    subs = list(S.subterms(base))
                    from_param = any(x[:1] == ("param",) and x != S.SELF for x in subs) and not any(x == S.SELF for x in subs)
                    copied = any(S.is_call_of(x) and ((x[1][:1] == ("attr",) and x[1][2] in COPYING) or (x[1][:1] == ("glob",) and x[1][1] in COPYING))
                                 for x in subs)
                    if from_param and not copied and base[:1] != ("acc",):
                        bad.append(S.show(t)[:80])
        col.add(rule, f"Table.{f}#selector-argument-not-written", not bad, sx.loc(sx.fn),
                "a selection does not write into the selector it was given (it may alias a column of the source)", str(bad[:2]), positive=bool(bad))
    if n < 3:
        raise AnalysisError("fewer than 3 selection functions of Table found -- cannot decide")


def _column_rebinding(col, rule="C14.R7"):
    """t[name] = value on an EXISTING column writes into the column (numpy checks / broadcasts the length); it never
    rebinds the entry to an object of unchecked length -- the table and everything derived from it would be ragged"""
    sx = tctx(col.repo, "__setitem__")
    key = sx.P(0)
    val = sx.P(1)
    n = 0
    for ev in sx.of_kind("store"):
        for t in S.alts(ev.target):
            if not (t[:1] == ("sub",) and t[1] == DATA and t[2] == key):
                continue
            n += 1
            conds = sx.conds(ev.nid)
            new_key = any(c == ("cmp", "not in", key, NAMES) for c in conds)
            len_ok = any(S.match(c, ("cmp", "==", S.fcall("len", S.V("v")), S.fcall("len", S.SELF))) is not None
                         for c in conds)
            col.add(rule, f"Table.__setitem__#rebinds-only-new-entries:{n}", new_key or len_ok, sx.loc(ev),
                    "a whole-entry rebinding `self._data[key] = ...` happens only for a key that is not a column yet "
                    "(or under an explicit length test)", f"under {[S.show(c) for c in conds]}")
    if not n:
        raise AnalysisError("Table.__setitem__: no `self._data[key] = value` store -- cannot decide")
    # a new entry is listed as a column only when its first dimension has the table's length (np.size, a product of dimensions, is not it)
    for ev, m in sx.calls_some(("call", ("attr", NAMES, "append"), (key,), ())):
        conds = sx.conds(ev.nid)
        lens = [c for c0 in conds for c in S.conjuncts(c0) if c[:1] == ("cmp",) and c[1] == "==" and S.fcall("len", S.SELF) in (c[2], c[3])]
        if not lens:
            raise AnalysisError("Table.__setitem__: the test under which a new entry becomes a column is not recognised (cannot decide)")
        okl = all(S.fcall("len", val) in (c[2], c[3]) for c in lens)
        col.add(rule, "Table.__setitem__#new-column-has-the-table-length", okl, sx.loc(ev),
                "a new entry is added to the column list when len(value) == len(table)", str([S.show(c) for c in lens]))


def _in_place_append_only_on_fresh_tables(col, rule="C14.R2"):
    """_concatenate_table extends its receiver in place: it is applied to a table made for the purpose (a copy, a new instance), never to
    a table the caller handed in"""
    repo = col.repo
    mod = repo.cls("Table").module
    n = 0
    for c in mod.classes.values():
        for mname, fn in c.methods.items():
            if mname == "_concatenate_table":
                continue
            fresh_names = set()
            stores = {}
            for x in ast.walk(fn):
                if isinstance(x, ast.Assign) and len(x.targets) == 1 and isinstance(x.targets[0], ast.Name):
                    stores.setdefault(x.targets[0].id, []).append(x.value)
                elif isinstance(x, ast.Name) and isinstance(x.ctx, ast.Store):
                    stores.setdefault(x.id, [])
            params = {a.arg for a in fn.args.args + fn.args.kwonlyargs}

            def fresh(e):
                if isinstance(e, ast.Call):
                    f = e.func
                    if isinstance(f, ast.Attribute) and f.attr in ("_copy", "copy", "__class__"):
                        return True
                    if isinstance(f, ast.Name) and (f.id in ("cls", "Table") or f.id in mod.classes):
                        return True
                    if isinstance(f, ast.Attribute) and f.attr == "_concatenate_table":
                        return fresh(f.value)      # returns its receiver
                    return False
                if isinstance(e, ast.Name) and e.id not in params:
                    vals = stores.get(e.id, [])
                    return bool(vals) and all(fresh(v) for v in vals)
                return False
            called = set()
            for x in ast.walk(fn):
                if isinstance(x, ast.Call) and isinstance(x.func, ast.Attribute) and x.func.attr == "_concatenate_table":
                    called.add(id(x.func))
                    n += 1
                    col.add(rule, f"{c.name}.{mname}#in-place-append-on-a-fresh-table", fresh(x.func.value), mod.loc(x),
                            "the table extended in place was made here (copy / new instance)", A.src(x)[:80], positive=True)
            for x in ast.walk(fn):
                if isinstance(x, ast.Attribute) and x.attr == "_concatenate_table" and id(x) not in called:
                    # handed on as a function (reduce / map): the accumulator it starts from must be fresh
                    parent = next((p_ for p_ in ast.walk(fn) if isinstance(p_, ast.Call) and x in p_.args), None)
                    ok = parent is not None and (A.dotted(parent.func) or "").split(".")[-1] == "reduce" and len(parent.args) == 3 and fresh(parent.args[2])
                    n += 1
                    col.add(rule, f"{c.name}.{mname}#in-place-append-on-a-fresh-table", ok, mod.loc(x),
                            "the table extended in place was made here (copy / new instance)", A.src(parent if parent is not None else x)[:80], positive=True)
    if n < 1:
        raise AnalysisError("Table: no use of _concatenate_table found -- anchor lost, cannot decide")


def check(col: Collector):
    with col.rule():
        _in_place_append_only_on_fresh_tables(col)
    with col.rule():
        _no_pattern_columns(col)
    with col.rule():
        _no_aliasing(col)
    with col.rule():
        _uniform(col)
    with col.rule():
        _expressions(col)
    with col.rule():
        _index_forced(col)
    with col.rule():
        _attrs(col)
    with col.rule():
        _no_source_mutation(col)
    with col.rule():
        _selector_not_mutated(col)
    with col.rule():
        _checked_ctor(col)
    with col.rule():
        _column_rebinding(col)
    # round 7: every row selection goes through the one selector implementation (which is where the scalars are carried over)
    from . import c08
    from .common import shared, construct_tag
    with col.rule():
        shared(col, "C14.R8", [c08._routing], select=lambda o: "_RowView.__getitem__" in o.construct,
               why="a selection path of its own builds the derived table without the non-column entries")
