"""C14 -- every Table the API produces is rectangular and leaves its source untouched."""
from __future__ import annotations

import ast

from .. import astutil as A
from ..core import AnalysisError, Collector
from ..dataflow import MUTATORS
from .common import FnCtx, fnctx, has_guard, is_method_call, is_self_call

PROP = "C14"
FLOORS = {"C14.R1": 5, "C14.R2": 6, "C14.R3": 4, "C14.R4": 5, "C14.R5": 10, "C14.R6": 4}
META = {
    "explanation": "Escape/alias analysis of column lists and data dictionaries into unverified (verify=False) constructors: the list "
                   "handed over is fresh, never the source's own `_col_names` / `_data`; each derivation applies one selector to every "
                   "listed column and carries the scalar (non-column) entries over; the index column is forced into the derived column "
                   "list; every `self.<attr>` read in the table module's classes resolves to a declared attribute; derivation methods "
                   "never call a mutator on the source's column list or data; the checked constructor tests lengths over the column list "
                   "and the index against the column list.",
    "decides": "no sharing of mutable structure between source and derived table; uniform selection; attribute existence; constructor checks",
    "not_decided": "lengths and values for all tables; sharing of numpy buffers between source and views (numpy semantics)",
    "assumptions": ["numpy fancy indexing returns arrays of the index's length"],
}

DERIVATIONS = [("Table", "_select"), ("Table", "_select_rows"), ("Table", "_select_cols"), ("Table", "__add__"), ("Table", "__mul__"),
               ("Table", "_copy"), ("Table", "_t"), ("Table", "concatenate"), ("_RowView", "_make_view"), ("_RowView", "__getitem__"),
               ("_ColView", "__getitem__"), ("Table", "__neg__"), ("_RowView", "reverse"), ("_RowView", "head"), ("_RowView", "tail")]


def _fresh(expr, cx: FnCtx, at: int, depth=0) -> bool:
    """expr denotes a freshly created list/dict (not an object reachable from an existing table)"""
    if isinstance(expr, (ast.List, ast.ListComp, ast.Dict, ast.DictComp)):
        return True
    if isinstance(expr, ast.Call):
        n = A.call_name(expr)
        if n in ("list", "dict", "sorted", "tuple") :
            return True
        if isinstance(expr.func, ast.Attribute) and expr.func.attr in ("copy", "split"):
            return True
        if n == "_View":
            return True
    if isinstance(expr, ast.Name) and depth < 3:
        ds = cx.defs(expr.id, at)
        strong = [d for d in ds if d.kind == "assign"]
        if not strong or any(d.kind in ("param",) for d in ds):
            return False
        return all(_fresh(d.value, cx, d.nid, depth + 1) for d in strong)
    return False


def _no_aliasing(col, rule="C14.R1"):
    repo = col.repo
    m = repo.module("table")
    n = 0
    for mod, c, fn in repo.all_functions():
        if mod is not m or c is None:
            continue
        cx = None
        for call in A.calls(fn):
            nm = A.call_name(call) or ""
            is_ctor = nm in ("Table", "cls", "self.__class__") or nm.endswith(".__class__")
            if not is_ctor:
                continue
            kws = {k.arg: k.value for k in call.keywords}
            unverified = "verify" in kws and A.is_const(kws["verify"], False)
            if not unverified:
                continue
            cx = cx or FnCtx(mod, c, fn)
            at = cx.cfg.containing(call)
            n += 1
            cn = kws.get("col_names")
            q = f"{c.name}.{fn.name}"
            okc = cn is not None and _fresh(cn, cx, at)
            col.add(rule, f"{q}#fresh-column-list", okc, mod.loc(call),
                    "the column list given to an unverified constructor is a fresh list (the derived table's column list is its own: "
                    "adding/removing/reordering columns there must not change the source)", A.src(cn))
            data = call.args[0] if call.args else kws.get("data")
            okd = data is not None and _fresh(data, cx, at)
            col.add(rule, f"{q}#fresh-data-dict", okd, mod.loc(call),
                    "the data mapping given to an unverified constructor is a fresh dict/view, not the source's own `_data`", A.src(data))
    col.count("unverified_constructor_calls", n)
    # verified constructor copies what it is given
    cx = fnctx(repo, "Table", "__init__")
    txt_ok = not A.has_fragments(cx.fn, ["{L} = {P1}.copy()", "{L} = list("])
    col.add(rule, "Table.__init__#verified-branch-copies", txt_ok, cx.loc(cx.fn),
            "the checked constructor copies the data mapping and builds its own column list", "")
    # _copy
    cx = fnctx(repo, "Table", "_copy")
    call = [c for c in A.calls(cx.fn) if (A.call_name(c) or "").endswith("__class__") or A.call_name(c) == "Table"]
    ok = len(call) == 1 and call[0].args and A.src(call[0].args[0]) == "self._data.copy()"
    col.add(rule, "Table._copy#copies-data-dict", ok, cx.loc(cx.fn), "_copy hands a copy of the data mapping to the constructor", "")


def _uniform(col, rule="C14.R2"):
    repo = col.repo
    for meth, sel in (("_select_rows", "self._data[{L}][{P1}]"), ("_select_cols", "self[{L}]"), ("_select", "{L}[{L}]")):
        cx = fnctx(repo, "Table", meth)
        missing = A.has_fragments(cx.fn, [sel, "self.keys(exclude_columns=True)", "{L}[{L}] = self._data[{L}]"])
        col.add(rule, f"Table.{meth}#columns-and-scalars", not missing, cx.loc(cx.fn),
                "every listed column gets the same selection and the scalar (non-column) entries are carried over", f"missing: {missing}")
        # loop over the column list is unconditional
        loops = [n for n in A.walk(cx.fn) if isinstance(n, ast.For) and any(
            isinstance(x, ast.Assign) and isinstance(x.targets[0], ast.Subscript) and A.target_names(n.target) == [A.dotted(x.targets[0].slice)]
            for x in A.walk(n))]
        cond = [n for l in loops for n in A.walk(l) if isinstance(n, (ast.If, ast.Break, ast.Continue))]
        col.add(rule, f"Table.{meth}#no-column-skipped", not cond, cx.loc(cx.fn), "no column of the list is skipped", f"{len(cond)} conditionals in the loops")
    cx = fnctx(repo, "Table", "keys")
    ok = not A.has_fragments(cx.fn, ["set(self._data) - set(self._col_names)"])
    col.add(rule, "Table.keys#scalars=data-minus-columns", ok, cx.loc(cx.fn), "the scalar entries are the data keys that are not columns", "")
    for meth, frag in (("__mul__", "np.concatenate([{L}._data[{L}]] * {P1})"), ("_concatenate_table", "np.concatenate([self._data[{L}], {P1}._data[{L}]])")):
        cx = fnctx(repo, "Table", meth)
        missing = A.has_fragments(cx.fn, [frag])
        loops = [n for n in A.walk(cx.fn) if isinstance(n, ast.For) and A.src(n.iter).endswith("._col_names")]
        col.add(rule, f"Table.{meth}#every-column", not missing and len(loops) == 1, cx.loc(cx.fn),
                "repetition/concatenation is applied to every column of the column list", f"missing: {missing}")
    cx = fnctx(repo, "Table", "__add__")
    ok = not A.has_fragments(cx.fn, ["{L} = self._copy()", "{L}._concatenate_table({P1})"])
    col.add(rule, "Table.__add__#on-a-copy", ok, cx.loc(cx.fn), "`+` concatenates onto a copy of the left table", "")
    cx = fnctx(repo, "Table", "__mul__")
    ok = not A.has_fragments(cx.fn, ["{L} = self._copy()"])
    col.add(rule, "Table.__mul__#on-a-copy", ok, cx.loc(cx.fn), "`*` repeats a copy", "")
    cx = fnctx(repo, "Table", "__len__")
    ok = not A.has_fragments(cx.fn, ["self._col_names[0]", "len(self._data[{L}])"])
    col.add(rule, "Table.__len__#length-of-first-column", ok, cx.loc(cx.fn), "len(table) is the length of a listed column", "")


def _index_forced(col, rule="C14.R3"):
    repo = col.repo
    for cls, meth, lst in (("Table", "_select", None), ("Table", "_select_cols", None), ("_ColView", "__getitem__", None)):
        cx = fnctx(repo, cls, meth)
        ins = cx.call_nodes(lambda c: isinstance(c.func, ast.Attribute) and c.func.attr == "insert" and len(c.args) == 2 and A.is_const(c.args[0], 0)
                            and A.src(c.args[1]).endswith("._index"))
        ok = len(ins) == 1
        if ok:
            c = cx.calls_at(ins[0])[0]
            lname = A.dotted(c.func.value)
            def notin(t):
                for a in (t.values if isinstance(t, ast.BoolOp) else [t]):
                    p = A.compare_parts(a)
                    if p and isinstance(p[1], ast.NotIn) and A.src(p[0]).endswith("._index") and A.dotted(p[2]) == lname:
                        return True
                return False
            ok = has_guard(cx.cfg, ins[0], "T", notin)
        col.add(rule, f"{cls}.{meth}#index-column-forced", ok, cx.loc(cx.fn),
                "the index column is inserted into the derived column list whenever it is missing from it", "")
    cx = fnctx(repo, "Table", "_select_cols")
    ok = not A.has_fragments(cx.fn, ["{L}[self._index] = self._data[self._index]"])
    col.add(rule, "Table._select_cols#index-data-carried", ok, cx.loc(cx.fn), "the index column's data accompanies the forced index column", "")
    for meth in ("_select", "_select_rows", "_select_cols", "_copy"):
        fn = repo.method("Table", meth)
        ok = any(any(k.arg == "index" and A.src(k.value) == "self._index" for k in c.keywords) for c in A.calls(fn))
        col.add(rule, f"Table.{meth}#same-index", ok, repo.cls("Table").module.loc(fn), "a derived table keeps the source's index column name", "")


def _checked_ctor(col, rule="C14.R6"):
    repo = col.repo
    cx = fnctx(repo, "Table", "__init__")
    cfg = cx.cfg
    raises = [n for n in cfg.nodes.values() if n.kind == "stmt" and isinstance(n.ast, ast.Raise)]
    def verify_guard(nid):
        return has_guard(cfg, nid, "T", lambda t: A.dotted(t) == "verify")
    # index presence against the column list
    idx = [r for r in raises if "Index column" in A.src(r.ast)]
    ok = len(idx) == 1 and verify_guard(idx[0].id)
    facts = ""
    if ok:
        ok = False
        for g in cfg.guards(idx[0].id):
            if g.kind == "T":
                for a in (g.ast.values if isinstance(g.ast, ast.BoolOp) else [g.ast]):
                    p = A.compare_parts(a)
                    if p and isinstance(p[1], ast.NotIn) and A.dotted(p[0]) == "index":
                        facts = A.src(a)
                        tgt = cx.resolve(p[2], idx[0].id)
                        ok = A.dotted(p[2]) not in ("data", "_data") and ("col_names" in A.src(p[2]))
    col.add(rule, "Table.__init__#index-among-columns", ok, cx.loc(idx[0].id) if idx else cx.loc(cx.fn),
            "the checked constructor rejects an index that is not in the *column list* (an entry of the data mapping that is not a "
            "listed column does not count)", facts)
    ln = [r for r in raises if "different lengths" in A.src(r.ast)]
    ok = len(ln) == 1 and verify_guard(ln[0].id)
    if ok:
        ok = not A.has_fragments(cx.fn, ["set((len({L}[{L}]) for {L} in {L}))"]) and \
            has_guard(cfg, ln[0].id, "T", lambda t: A.compare_parts(t) is not None and isinstance(A.compare_parts(t)[1], ast.Gt) and A.is_const(A.compare_parts(t)[2], 1))
    col.add(rule, "Table.__init__#equal-lengths", ok, cx.loc(ln[0].id) if ln else cx.loc(cx.fn),
            "the checked constructor rejects columns of different lengths (set of lengths over the column list has more than one element)", "")
    arr = [r for r in raises if "not a numpy array" in A.src(r.ast)]
    col.add(rule, "Table.__init__#columns-are-arrays", len(arr) == 1 and verify_guard(arr[0].id), cx.loc(cx.fn),
            "every listed column must be a numpy array", "")
    # every listed column is looked up in data (KeyError if absent)
    ok = not A.has_fragments(cx.fn, ["{L} = {P1}[{L}]"])
    col.add(rule, "Table.__init__#listed-columns-present", ok, cx.loc(cx.fn), "every listed column is fetched from the data mapping", "")
    dflt = A.param_defaults(cx.fn).get("verify")
    col.add(rule, "Table.__init__#verify-by-default", A.is_const(dflt, True), cx.loc(cx.fn), "the constructor checks by default", A.src(dflt))
    # _t / concatenate go through the checked constructor
    for meth in ("_t", "concatenate", "_copy"):
        fn = repo.method("Table", meth)
        calls = [c for c in A.calls(fn) if A.call_name(c) in ("Table", "cls", "self.__class__")]
        ok = len(calls) == 1 and not any(k.arg == "verify" for k in calls[0].keywords)
        col.add(rule, f"Table.{meth}#through-checked-constructor", ok, repo.cls("Table").module.loc(fn),
                f"{meth} builds its result with the checked constructor", "")


def _attrs(col, rule="C14.R4"):
    repo = col.repo
    m = repo.module("table")
    deriv = {f"{c}.{f}" for c, f in DERIVATIONS}
    for cname, c in m.classes.items():
        known = set(c.methods) | set(c.properties) | set(c.consts) | set(c.setters)
        for b in repo.mro(c)[1:]:
            known |= set(b.methods) | set(b.consts)
        dynamic_getattr = "__getattr__" in c.methods
        for fn in c.methods.values():
            for n in A.walk(fn):
                if isinstance(n, (ast.Assign, ast.AugAssign, ast.AnnAssign)):
                    for t in (n.targets if isinstance(n, ast.Assign) else [n.target]):
                        a = A.self_attr(t)
                        if a:
                            known.add(a)
                if isinstance(n, ast.Call) and A.call_name(n) == "object.__setattr__" and len(n.args) == 3 and A.dotted(n.args[0]) == "self" \
                        and isinstance(n.args[1], ast.Constant):
                    known.add(n.args[1].value)
                if isinstance(n, ast.Dict) and fn.name == "__init__":
                    for k in n.keys:
                        if isinstance(k, ast.Constant) and isinstance(k.value, str):
                            known.add(k.value)
        known |= {"__class__", "__dict__"}
        seen = set()
        for fname, fn in c.methods.items():
            if id(fn) in seen:
                continue
            seen.add(id(fn))
            for n in A.walk(fn):
                a = A.self_attr(n) if isinstance(n, ast.Attribute) and isinstance(n.ctx, ast.Load) else None
                if a and a not in known:
                    guarded = any(isinstance(x, ast.Call) and A.call_name(x) == "hasattr" and len(x.args) == 2 and A.const(x.args[1]) == a for x in A.walk(fn))
                    if guarded:
                        continue
                    q = f"{cname}.{fname}"
                    is_deriv = q in deriv
                    col.add(rule, f"{q}#attribute:{a}", False, m.loc(n),
                            f"`self.{a}` resolves to an attribute, method or property that {cname} declares",
                            f"{cname} declares no `{a}`" + ("" if is_deriv else " (not a derivation method: cross-reference only)"),
                            note=not is_deriv)
    for c, f in DERIVATIONS:
        if repo.has_method(c, f):
            fn = repo.method(c, f)
            if not any(o.rule == rule and o.construct.startswith(f"{c}.{f}#") for o in col.obs):
                col.ok(rule, f"{c}.{f}#attributes-exist", m.loc(fn), "every self.<attr> read in this derivation method is declared", "")


def _no_source_mutation(col, rule="C14.R5"):
    repo = col.repo
    m = repo.module("table")
    for c, f in DERIVATIONS:
        if not repo.has_method(c, f):
            continue
        fn = repo.method(c, f)
        bad = []
        roots = ("self._col_names", "self._data", "self.table._col_names", "self.table._data")
        for n in A.walk(fn):
            if isinstance(n, ast.Call) and isinstance(n.func, ast.Attribute) and n.func.attr in MUTATORS:
                r = A.dotted(n.func.value)
                if r in roots:
                    bad.append(A.src(n))
            targets = []
            if isinstance(n, ast.Assign):
                targets = n.targets
            elif isinstance(n, ast.AugAssign):
                targets = [n.target]
            elif isinstance(n, ast.Delete):
                targets = n.targets
            for t in targets:
                base = t
                while isinstance(base, ast.Subscript):
                    base = base.value
                    if A.dotted(base) in roots:
                        bad.append(A.src(n)[:60])
                        break
                if isinstance(t, ast.Attribute) and A.dotted(t) in roots:
                    bad.append(A.src(n)[:60])
        # aliases of the source's column list mutated in place
        for n in A.walk(fn):
            if isinstance(n, ast.Assign) and len(n.targets) == 1 and isinstance(n.targets[0], ast.Name) and A.dotted(n.value) in roots:
                al = n.targets[0].id
                for x in A.walk(fn):
                    if isinstance(x, ast.Call) and isinstance(x.func, ast.Attribute) and x.func.attr in MUTATORS and A.dotted(x.func.value) == al:
                        bad.append(f"{al} = {A.src(n.value)}; {A.src(x)}")
        col.add(rule, f"{c}.{f}#source-not-mutated", not bad, m.loc(fn),
                "a derivation never mutates the source's column list or data mapping (directly or through an alias)", str(bad))


def _expressions(col, rule="C14.R2"):
    repo = col.repo
    cx = fnctx(repo, "Table", "__getitem__")
    ok = not A.has_fragments(cx.fn, ["return self._data[{P1}]", "return eval({P1}, gblmath, self._data)"])
    col.add(rule, "Table.__getitem__#column-expression-fallback", ok, cx.loc(cx.fn),
            "a string that is not a column name is evaluated as an expression over the columns (numpy ufunc namespace)", "")
    cx = fnctx(repo, "Table", "_select_cols")
    col.add(rule, "Table._select_cols#expressions-via-getitem", not A.has_fragments(cx.fn, ["self[{L}]"]), cx.loc(cx.fn),
            "column selection evaluates each requested name/expression through table[...]", "")


def check(col: Collector):
    _no_aliasing(col)
    _uniform(col)
    _expressions(col)
    _index_forced(col)
    _attrs(col)
    _no_source_mutation(col)
    _checked_ctor(col)
