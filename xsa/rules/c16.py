"""C16 -- Newton step is the least-squares solution; scalings and Jacobians consistent (structural part only)."""
from __future__ import annotations

import ast

from .. import astutil as A
from .. import sym as S
from ..core import AnalysisError, Collector
from ..shapes import ShapeError, TermShapes, Unsupported
from .common import SCtx, sctx
from .c02 import default_only_when_none
from .c09 import OPT_KEEP, octx

PROP = "C16"
FLOORS = {"C16.R1": 7, "C16.R2": 6, "C16.R3": 5, "C16.R4": 4, "C16.R5": 2, "C16.R6": 1}
META = {
    "explanation": "The statement is numerical; only what is visible without numbers is decided. Symbolic shape inference on the "
                   "symbolic terms (distinct symbols for m, n, k, the cutoff and a second right-hand-side axis) of SVD.lstsq, the "
                   "Broyden update, the masked solve and the scalar gradient: every product type-checks and results have the required "
                   "shapes, for 1-D and 2-D right-hand sides; the solution depends on the factorisation and the current rcond/cutoff "
                   "only (nothing remembered from earlier calls); U, Vh and s are truncated by one bound on matching axes; singular "
                   "values are inverted where positive and dropped below rcond * s[0]; the Broyden update uses the secant pair "
                   "(x - x_at_last_jacobian, y - y_at_last_jacobian). Inverse pairs by symbolic algebra on the terms (sympy, nothing is "
                   "executed): weights multiply in _x_to_knobs and divide in _knobs_to_x under the same guard; _scaled_from_native "
                   "inverts _scaled_to_native; the chain-rule factor of the view's Jacobian equals the derivative of the very map the "
                   "view applies. Forward differences perturb x[i] by steps[i], divide by the same steps[i] and restore x[i]. _get_x divides and _set_x multiplies by the knob weights (inverse pair).",
    "decides": "shape correctness, truncation consistency, algebraic inverse/derivative identities of the scaling maps, finite-difference template",
    "not_decided": "that the result is the minimum-norm solution, convergence of the first step, agreement with finite differences to rounding, signs",
    "assumptions": ["numpy shape semantics of @, dot, outer, diag, boolean-mask indexing as modelled in xsa/shapes.py"],
}

NP = ("glob", "np")
U, SV, VH = S.sattr("U"), S.sattr("s"), S.sattr("Vh")
FULL = ("slice", None, None, None)


def npf(name, *args, **kw):
    return S.fcall(("attr", NP, name), *args, **kw)


def _self_fields(t):
    return {s_[2] for s_ in S.subterms(t) if S.is_attr(s_, S.SELF)}


def _shapes(col, rule="C16.R1"):
    repo = col.repo
    sx = sctx(repo, "SVD", "lstsq")
    b = sx.pnamed("b")
    cut = sx.pnamed("sing_val_cutoff")
    rets = [r for r in sx.of_kind("return") if ("uop", "not", S.sattr("empty")) in sx.conds(r.nid) or not sx.conds(r.nid)]
    if not rets:
        raise AnalysisError("SVD.lstsq: no return for a non-empty matrix (cannot decide)")
    allowed = {"U", "s", "Vh", "rcond", "sing_val_cutoff", "empty"}
    extra = sorted({f for r in rets for f in _self_fields(r.value)} - allowed)
    col.add(rule, "SVD.lstsq#depends-on-current-arguments-only", not extra, sx.loc(rets[0]),
            "the solution is computed from the factorisation (U, s, Vh) and the rcond / cutoff of *this* call: no attribute remembered "
            "from an earlier call enters it", f"other attributes read: {extra}")
    for label, bshape, want in (("1-D right-hand side", ("m",), ("n",)), ("2-D right-hand side (stacked columns)", ("m", "r"), ("n", "r"))):
        env = {U: ("m", "k"), VH: ("k", "n"), SV: ("k",), b: bshape, sx.pnamed("rcond"): (), S.sattr("rcond"): ()}
        ts = TermShapes(env, {cut: "c", S.sattr("sing_val_cutoff"): "c"})
        try:
            got = [ts.of(r.value) for r in rets]
            for e in sx.of_kind("store"):
                if e.target[:1] == ("sub",) and e.value is not None and not S.is_attr(e.target[1], S.SELF):
                    from ..shapes import broadcast
                    broadcast(ts.index(ts.of(e.target[1]), e.target[2], S.show(e.target)[:60]), ts.of(e.value), S.show(e.target)[:60])
            ok, facts = all(g == want for g in got), f"result shape {got}, expected {want}"
        except ShapeError as e:
            ok, facts = False, str(e)
        except Unsupported as e:
            if extra:
                ok, facts = False, f"cannot type an expression over remembered state: {e}"
            else:
                raise AnalysisError(f"SVD.lstsq: shape interpreter does not support {e}")
        col.add(rule, f"SVD.lstsq#shapes:{label}", ok, sx.loc(rets[0]),
                f"with U: m x k, s: k, Vh: k x n (full_matrices=False), truncated to c singular values, every product in lstsq "
                f"type-checks and the solution has shape {want} for a {label}", facts)
    isx = sctx(repo, "SVD", "__init__")
    mat = isx.P(0)
    dec = npf("svd", mat)
    dec = ("call", ("attr", ("attr", NP, "linalg"), "svd"), (mat,), (("full_matrices", ("const", "False")),))
    st = {e.target[2]: e.value for e in isx.of_kind("store") if S.is_attr(e.target, S.SELF)}
    ok = st.get("U") == ("item", dec, 0) and st.get("s") == ("item", dec, 1) and st.get("Vh") == ("item", dec, 2)
    col.add(rule, "SVD.__init__#economy-svd", ok, isx.loc(isx.fn), "the decomposition is the economy SVD of the given matrix, stored as U, s, Vh",
            str({k: S.show(v)[:60] for k, v in st.items() if k in ("U", "s", "Vh")}))
    # ---- Broyden update and masked solve in JacobianSolver.step
    sx = octx(repo, "JacobianSolver", "step")
    X = S.sattr("x")
    FUNC = S.sattr("func")
    Y = ("item", S.mcall(S.SELF, "eval", X), 0)
    LJ, LX, LY = S.sattr("_last_jac"), S.sattr("_last_jac_x"), S.sattr("_last_y")
    svd = sx.calls_some(("call", ("glob", "SVD"), (S.V("m"),), S.ANY))
    if len(svd) != 1:
        raise AnalysisError("JacobianSolver.step: expected one SVD(...) (cannot decide)")
    mat = svd[0][1]["m"]
    env = {LJ: ("p", "q"), X: ("q",), LX: ("q",), LY: ("p",), Y: ("p",), ("attr", FUNC, "mask_input"): ("q",), S.sattr("mask_from_limits"): ("q",),
           ("attr", FUNC, "mask_output"): ("p",)}
    for s_ in S.subterms(mat):
        if S.is_call_of(s_, meth="get_jacobian"):
            env[s_] = ("p", "q")
    jac = mat
    while jac[:1] == ("sub",):
        jac = jac[1]
    bro = [a for a in S.alts(jac) if S.contains(a, lambda t: S.is_call_of(t, ("attr", NP, "outer")))]
    if len(bro) != 1:
        raise AnalysisError("JacobianSolver.step: Broyden update not found among the Jacobian alternatives (cannot decide)")
    DX, DY = ("op", "-", X, LX), ("op", "-", Y, LY)
    want = ("op", "+", LJ, ("op", "/", npf("outer", ("op", "-", DY, npf("dot", LJ, DX)), DX), npf("dot", DX, DX)))
    secant_ok = bro[0] == want
    col.add(rule, "JacobianSolver.step#broyden-secant-pair", secant_ok, sx.loc(svd[0][0]),
            "the Broyden update is J + outer(dy - J dx, dx) / (dx . dx) with dx = x - (x where the last Jacobian was taken) and "
            "dy = y - (y at that point): the secant pair really observed, not the step that was proposed", S.show(bro[0])[:160])
    ts = TermShapes(env)
    try:
        sh = ts.of(mat)
        ok = len(sh) == 2 and str(sh[0]).startswith("sel(") and str(sh[1]).startswith("sel(")
        facts = f"shape {sh}"
    except ShapeError as e:
        ok, facts = False, str(e)
    except Unsupported as e:
        if secant_ok:
            raise AnalysisError(f"JacobianSolver.step: {e}")
        ok, facts = False, f"cannot type the update: {e}"
    col.add(rule, "JacobianSolver.step#masked-matrix-shape", ok, sx.loc(svd[0][0]),
            "the matrix handed to the SVD is (active targets) x (free knobs): the output mask selects rows, the input mask columns, and "
            "both Jacobian alternatives (finite differences, Broyden update) are p x q (rows = residuals, columns = knobs)", facts)
    st = {}
    for e in sx.of_kind("store"):
        if S.is_attr(e.target, S.SELF):
            st.setdefault(e.target[2], []).append(e)
    okm = all(len(st.get(k, [])) == 1 for k in ("_last_jac_x", "_last_y", "_last_jac")) and \
        st["_last_jac_x"][0].value == S.mcall(X, "copy") and st["_last_y"][0].value == S.mcall(Y, "copy") and \
        S.match(st["_last_jac"][0].value, ("call", ("attr", S.V("j"), "copy"), (), ())) is not None
    col.add(rule, "JacobianSolver.step#secant-memory", okm, sx.loc(sx.fn),
            "the point, residuals and Jacobian remembered for the next Broyden update are copies of the current x, y and the Jacobian "
            "just used", str({k: [S.show(e.value)[:50] for e in v] for k, v in st.items() if k.startswith("_last_jac") or k == "_last_y"}))
    # ---- scalar gradient
    sx = octx(repo, "MeritFuctionView", "get_jacobian")
    rets = [r for r in sx.of_kind("return") if S.contains(r.value, lambda t: S.is_call_of(t, ("attr", NP, "dot")))]
    if len(rets) != 1:
        raise AnalysisError("MeritFuctionView.get_jacobian: scalar gradient return not found")
    v = rets[0].value
    m = S.match(v, ("op", "*", ("const", S.V("two", lambda t: t in ("2", "2.0"))), npf("dot", S.V("f"), S.V("j"))))
    col.add(rule, "MeritFuctionView.get_jacobian#scalar-gradient-factor", m is not None, sx.loc(rets[0]), "d/dx sum(f^2) = 2 f . J", S.show(v)[:100])
    if m is not None:
        env = {m["f"]: ("p",)}
        for s_ in S.subterms(m["j"]):
            if S.is_call_of(s_, meth="get_jacobian"):
                env[s_] = ("p", "q")
        try:
            sh = TermShapes(env).of(npf("dot", m["f"], m["j"]))
            ok, facts = sh == ("q",), f"shape {sh}"
        except (ShapeError, Unsupported) as e:
            ok, facts = False, str(e)
        col.add(rule, "MeritFuctionView.get_jacobian#scalar-gradient-shape", ok, sx.loc(rets[0]),
                "the gradient of the scalar merit 2 * f . J has one entry per knob", facts)


def _truncation(col, rule="C16.R4"):
    repo = col.repo
    sx = sctx(repo, "SVD", "lstsq")
    rets = [r for r in sx.of_kind("return") if not S.is_call_of(r.value, ("attr", NP, "array"))]
    bounds = {}
    for r in rets:
        for s_ in S.subterms(r.value):
            if s_[:1] == ("sub",) and s_[1] in (U, VH, SV):
                bounds.setdefault(s_[1][2], set()).add(s_[2])
    for e in sx.of_kind("store"):
        for s_ in S.subterms(e.target):
            if s_[:1] == ("sub",) and s_[1] == SV and s_[2][:1] == ("slice",):
                bounds.setdefault("s", set()).add(s_[2])
    ok = all(len(bounds.get(k, ())) == 1 for k in ("U", "Vh", "s"))
    if ok:
        u, vh, s_ = next(iter(bounds["U"])), next(iter(bounds["Vh"])), next(iter(bounds["s"]))
        ok = u[:1] == ("tuple",) and u[1][0] == FULL and vh[:1] == ("tuple",) and vh[1][1] == FULL and \
            u[1][1] == vh[1][0] == s_ and s_[:1] == ("slice",) and s_[1] is None and s_[3] is None and s_[2] is not None
    col.add(rule, "SVD.lstsq#one-bound-on-matching-axes", ok, sx.loc(sx.fn),
            "U's columns, Vh's rows and s are truncated by the same bound", str({k: [S.show(x) for x in v] for k, v in bounds.items()}))
    sl = next(iter(bounds["s"])) if bounds.get("s") else None
    St = ("sub", SV, sl) if sl is not None else SV
    ZL = npf("zeros_like", St)
    pos = ("cmp", ">", St, ("const", "0"))
    rc = sx.pnamed("rcond")
    S0 = ("sub", St, ("const", "0"))

    def is_drop(t):
        m_ = S.match(t, ("cmp", "<", St, ("op", "*", S.V("rc"), S0)))
        return m_ is not None and rc in S.alts(m_["rc"])

    def is_keep(t):
        m_ = S.match(t, ("cmp", ">=", St, ("op", "*", S.V("rc"), S0)))
        return (m_ is not None and rc in S.alts(m_["rc"])) or (t[:1] == ("uop",) and t[1] in ("~", "not") and is_drop(t[2]))

    # s_inv[M] = 1 / s[M]: M is `s > 0`, possibly and-ed with "not below rcond * largest"
    inv = [e for e in sx.of_kind("store") if e.target[:1] == ("sub",) and e.target[1] == ZL and e.value is not None and e.value != ("const", "0")]
    ok, fused = len(inv) == 1, False
    if ok:
        M = inv[0].target[2]
        ok = inv[0].value == ("op", "/", ("const", "1"), ("sub", St, M))
        for a in S.alts(M):
            if a == pos:
                continue
            if a[:1] == ("op",) and a[1] == "&" and pos in (a[2], a[3]) and is_keep(a[3] if a[2] == pos else a[2]):
                fused = True
                continue
            ok = False
    col.add(rule, "SVD.lstsq#positive-singular-values-inverted", ok, sx.loc(inv[0]) if inv else sx.loc(sx.fn),
            "the inverse singular values are 1/s where s > 0 and 0 elsewhere", S.show(inv[0].value)[:80] if inv else "")
    drop = [e for e in sx.of_kind("store") if e.value == ("const", "0") and e.target[:1] == ("sub",) and e.target[1] == ZL]
    ok = (len(drop) == 1 and is_drop(drop[0].target[2])) or (not drop and fused)
    col.add(rule, "SVD.lstsq#rcond-relative-to-largest", ok, sx.loc(drop[0]) if drop else sx.loc(sx.fn),
            "singular values below rcond times the largest one are dropped", S.show(drop[0].target[2])[:80] if drop else ("folded into the inversion mask" if fused else ""))
    before = len(col.obs)
    default_only_when_none(col, rule, sx, "SVD.lstsq", rc)
    default_only_when_none(col, rule, sx, "SVD.lstsq", sx.pnamed("sing_val_cutoff"))
    if len(col.obs) == before:
        col.ok(rule, "SVD.lstsq#default-only-when-None", sx.loc(sx.fn), "no default substitution", "")
    isx = sctx(repo, "SVD", "__init__")
    cut = isx.pnamed("sing_val_cutoff")
    st = [e for e in isx.of_kind("store") if e.target == S.sattr("sing_val_cutoff") and ("cmp", "is", cut, ("const", "None")) in isx.conds(e.nid)]
    # a local that was also stored into a field denotes that field
    back = {e.value: e.target for e in isx.of_kind("store") if S.is_attr(e.target, S.SELF) and e.value is not None
            and e.value[:1] not in (("const",), ("param",), ("alt",)) and e.target != S.sattr("sing_val_cutoff")}
    ok = bool(st) and all(S.subst(e.value, back) == S.fcall("len", SV) for e in st)
    if not st:
        # the choice made in a helper / a conditional expression: judged by where the stored value came from
        isnone = ("cmp", "is", cut, ("const", "None"))
        for e in isx.of_kind("store"):
            if e.target != S.sattr("sing_val_cutoff"):
                continue
            node = isx.cfg.nodes[e.nid].ast
            val = getattr(node, "value", None)
            if val is None:
                continue
            try:
                gv = isx.guarded_values(val, e.nid)
            except Exception:
                gv = []
            dflt = [v for v, cs in gv if isnone in cs and v != cut]
            if dflt:
                ok = all(S.subst(v, back) == S.fcall("len", SV) for v in dflt)
    col.add(rule, "SVD.__init__#default-cutoff-keeps-all", ok, isx.loc(isx.fn), "by default all singular values are kept", "")


def _to_sympy(t, x, names):
    import sympy as sp
    if t == x:
        return sp.Symbol("x")
    if t in names:
        return sp.Symbol(names[t])
    k = t[0]
    if k == "const":
        try:
            return sp.nsimplify(float(t[1]))
        except ValueError:
            raise Unsupported(f"constant {t[1]}")
    if k in ("op", "aug"):
        l, r = _to_sympy(t[2], x, names), _to_sympy(t[3], x, names)
        if t[1] == "+":
            return l + r
        if t[1] == "-":
            return l - r
        if t[1] == "*":
            return l * r
        if t[1] == "/":
            return l / r
    if k == "uop" and t[1] == "-":
        return -_to_sympy(t[2], x, names)
    if k == "alt":
        vals = {sp.simplify(_to_sympy(a, x, names)) for a in t[1]}
        if len(vals) == 1:
            return vals.pop()
    raise Unsupported(f"formula `{S.show(t)[:80]}`")


def _map_names():
    bounds = S.mcall(S.sattr("merit_function"), "_get_x_limits")
    rs = S.sattr("rescale_x")
    return {("sub", bounds, ("tuple", (FULL, ("const", "0")))): "bounds_0", ("sub", bounds, ("tuple", (FULL, ("const", "1")))): "bounds_1",
            ("sub", rs, ("const", "0")): "scaled_range_0", ("sub", rs, ("const", "1")): "scaled_range_1"}


def _map_expr(repo, name):
    sx = sctx(repo, "MeritFuctionView", name, keep=OPT_KEEP | {"_check_for_scalability"})
    rets = sx.of_kind("return")
    if len(rets) != 1:
        raise AnalysisError(f"MeritFuctionView.{name}: single return expected")
    return sx, _to_sympy(rets[0].value, sx.P(0), _map_names())


def _inverse_pairs(col, rule="C16.R2"):
    repo = col.repo
    import sympy as sp
    m = repo.cls("MeritFunctionForMatch").module
    info = {}
    W = ("attr", ("elem", S.sattr("vary")), "weight")
    for name, op in (("_x_to_knobs", "*"), ("_knobs_to_x", "/")):
        sx = octx(repo, "MeritFunctionForMatch", name)
        arg = sx.P(0)
        st = [e for e in sx.of_kind("store") if e.target[:1] == ("sub",) and e.value is not None and e.value[:1] == ("aug",)]
        ok = len(st) == 1 and st[0].value[1] == op and st[0].value[3] == W and st[0].target[2] == ("index", S.sattr("vary"))
        conds = tuple(sx.conds(st[0].nid)) if st else None
        info[name] = conds
        col.add(rule, f"MeritFunctionForMatch.{name}#{'multiplies' if op == '*' else 'divides'}-by-weight", ok, sx.loc(sx.fn),
                f"{name} {'multiplies' if op == '*' else 'divides'} coordinate i by the weight of knob i, for every knob",
                f"{S.show(st[0].value)[:80] if st else None} under {[S.show(c) for c in conds] if conds else None}")
        copy_ok = bool(st) and st[0].target[1] != arg and S.contains(st[0].target[1], lambda t: S.is_call_of(t, meth="copy") or S.is_call_of(t, ("attr", NP, "array"))) \
            and all(r.value == st[0].target[1] for r in sx.of_kind("return"))
        col.add(rule, f"MeritFunctionForMatch.{name}#works-on-a-copy", copy_ok, sx.loc(sx.fn), "the argument is not modified in place", "")
        if op == "/" and st:
            # knob values and limits come from the user (ints are common): an in-place true division on an integer array truncates
            def _floaty(t):
                if S.is_call_of(t) and t[1][:1] == ("attr",) and t[1][2] in ("array", "asarray", "zeros", "empty", "full", "astype", "asfarray"):
                    kws = dict(t[3])
                    dt = kws.get("dtype") or (t[2][0] if t[1][2] == "astype" and t[2] else None) or (t[2][1] if t[1][2] in ("array", "asarray") and len(t[2]) > 1 else None)
                    if t[1][2] in ("asfarray",):
                        return True
                    if t[1][2] in ("zeros", "empty") and dt is None:
                        return True
                    return dt is not None and S.show(dt, False).strip("'\"").split(".")[-1] in ("float64", "float", "float_", "double", "f8", "longdouble", "float128")
                return False
            floaty = S.contains(st[0].target[1], _floaty)
            col.add(rule, f"MeritFunctionForMatch.{name}#divides-a-float-array", floaty, sx.loc(sx.fn),
                    "the array whose coordinates are divided in place by the weights is made a float array first (integer knob values or "
                    "limits would be truncated by the in-place division)", S.show(st[0].target[1])[:100])
    col.add(rule, "MeritFunctionForMatch._x_to_knobs~_knobs_to_x#same-guard", info["_x_to_knobs"] == info["_knobs_to_x"] and info["_x_to_knobs"] is not None, m.rel,
            "the two weight conversions apply under the same condition, so they are inverse to each other",
            str({k: [S.show(c) for c in v] if v else None for k, v in info.items()}))
    # the users of the pair: _get_x reads knobs into x-space (divide), _set_x takes x to knobs (multiply) -- through the merit call or directly
    gx = octx(repo, "MeritFunctionForMatch", "_get_x")
    rets = gx.of_kind("return")
    okg = bool(rets) and all(S.is_call_of(r.value, meth="_knobs_to_x") and r.value[1][1] == S.SELF for r in rets)
    wrong = any(S.is_call_of(x, meth="_x_to_knobs") for r in rets for x in S.subterms(r.value))
    if not okg and not wrong:
        raise AnalysisError("MeritFunctionForMatch._get_x: conversion of the knob values to x not recognised (cannot decide)")
    col.add(rule, "MeritFunctionForMatch._get_x#knobs-to-x", okg and not wrong, gx.loc(gx.fn), "_get_x returns _knobs_to_x(knob values)", "")
    sx_ = octx(repo, "MeritFunctionForMatch", "_set_x")
    xp = sx_.P(0)
    via_call = [ev for ev in sx_.of_kind("call") if ev.term[:1] == ("call",) and ev.term[1] in (S.SELF, ("attr", S.SELF, "__call__")) and ev.term[2][:1] == (xp,)]
    direct = [e for e in sx_.of_kind("store") if e.target[:1] == ("sub",) and S.contains(e.target, lambda t: t == S.sattr("vary"))]
    conv = {x[1][2] for ev in sx_.events for tm in ([ev.term] if ev.kind == "call" else [v for v in (ev.value,) if v is not None])
            for x in S.subterms(tm) if S.is_call_of(x) and x[1][:1] == ("attr",) and x[1][2] in ("_knobs_to_x", "_x_to_knobs") and xp in S.subterms(x)}
    if via_call and not direct and not conv:
        oks, why = True, "through self(x)"
    elif direct and conv == {"_x_to_knobs"} and not via_call:
        oks, why = True, "directly, with _x_to_knobs"
    elif "_knobs_to_x" in conv:
        oks, why = False, "x is converted with _knobs_to_x (division by the weight) on its way to the knobs"
    else:
        raise AnalysisError("MeritFunctionForMatch._set_x: how x reaches the knobs is not recognised (cannot decide)")
    col.add(rule, "MeritFunctionForMatch._set_x#x-to-knobs", oks, sx_.loc(sx_.fn),
            "_set_x is the inverse of _get_x: x reaches the knobs multiplied by the weights (_x_to_knobs, directly or inside the merit call)", why)
    # the two maps are affine in x: a clipped / saturated formula is constant outside its bounds, so it has no inverse there and the
    # chain-rule factor get_jacobian reads off it (probing two scaled points) is wrong wherever a probe saturates
    sat = False
    for name in ("_scaled_to_native", "_scaled_from_native"):
        msx = octx(repo, "MeritFuctionView", name)
        for r in msx.of_kind("return"):
            hit = [t for t in S.subterms(r.value) if S.is_call_of(t) and t[1] in (("attr", NP, "clip"), ("attr", NP, "minimum"), ("attr", NP, "maximum"),
                                                                                   ("glob", "min"), ("glob", "max"), ("attr", NP, "where"))
                   and any(msx.P(0) in S.subterms(a) for a in t[2])]
            col.add(rule, f"MeritFuctionView.{name}#affine-not-saturated", not hit, msx.loc(r),
                    "the scaling map is an affine function of x (no clipping)", S.show(hit[0])[:80] if hit else "", positive=True)
            sat = sat or bool(hit)
    if sat:
        return
    try:
        s1, to_native = _map_expr(repo, "_scaled_to_native")
        s2, from_native = _map_expr(repo, "_scaled_from_native")
    except Unsupported as e:
        raise AnalysisError(f"scaling maps: {e}")
    x = sp.Symbol("x")
    comp1 = sp.simplify(from_native.subs(x, to_native) - x)
    comp2 = sp.simplify(to_native.subs(x, from_native) - x)
    col.add(rule, "MeritFuctionView._scaled_from_native(_scaled_to_native(x))==x", comp1 == 0, s2.loc(s2.fn),
            "mapping a scaled point to native space and back is the identity (symbolic algebra on the two formulas)", f"difference: {comp1}")
    col.add(rule, "MeritFuctionView._scaled_to_native(_scaled_from_native(x))==x", comp2 == 0, s1.loc(s1.fn),
            "mapping a native point to scaled space and back is the identity", f"difference: {comp2}")
    b0, b1, r0, r1 = sp.Symbol("bounds_0"), sp.Symbol("bounds_1"), sp.Symbol("scaled_range_0"), sp.Symbol("scaled_range_1")
    ends = sp.simplify(to_native.subs(x, r0) - b0) == 0 and sp.simplify(to_native.subs(x, r1) - b1) == 0
    col.add(rule, "MeritFuctionView._scaled_to_native#maps-interval-ends-to-limits", ends, s1.loc(s1.fn),
            "the ends of the scaled interval map to the lower and upper limit", f"{to_native}")
    # chain-rule factor in get_jacobian (the private map is inlined: the factor is a formula in x)
    sx = sctx(repo, "MeritFuctionView", "get_jacobian", keep=OPT_KEEP | {"_check_for_scalability"})
    xin = npf("array", sx.P(0))
    colscale = [e for e in sx.of_kind("store") if e.value is not None and e.value[:1] == ("aug",) and e.value[1] == "*" and e.target[:1] == ("sub",)
                and e.target[2][:1] == ("tuple",) and e.target[2][1][0] == FULL]
    ok = len(colscale) == 1 and colscale[0].value[3][:1] == ("sub",) and colscale[0].value[3][2] == colscale[0].target[2][1][1]
    col.add(rule, "MeritFuctionView.get_jacobian#column-j-scaled-by-factor-j", ok, sx.loc(colscale[0]) if colscale else sx.loc(sx.fn),
            "column j of the native Jacobian is multiplied by d native_j / d scaled_j", S.show(colscale[0].value)[:100] if colscale else "")
    if not ok:
        raise AnalysisError("MeritFuctionView.get_jacobian: chain-rule factor not found")
    fac_t = colscale[0].value[3][1]
    try:
        # the factor is built from the map applied to 0*x and 1+0*x; x itself may already have been converted: any x-like leaf is `x`
        names = dict(_map_names())
        leaves = [a for a in S.instances(fac_t, 64)]
        vals = set()
        for inst in leaves:
            xs = [s_ for s_ in S.subterms(inst) if s_ == xin]
            e = _to_sympy(S.subst(inst, {xin: ("glob", "X_")}), ("glob", "X_"), names)
            vals.add(sp.simplify(e))
        deriv = sp.simplify(sp.diff(to_native, x))
        okf = bool(vals) and all(sp.simplify(v - deriv) == 0 for v in vals)
        facts = f"factor = {sorted(map(str, vals))}; d(_scaled_to_native)/dx = {deriv}"
    except Unsupported as e:
        # x may appear converted (native) inside the factor: substitute the converted argument as well
        try:
            conv = None
            for s_ in S.subterms(fac_t):
                pass
            raise
        except Unsupported:
            raise AnalysisError(f"MeritFuctionView.get_jacobian: chain-rule factor not understood: {e}")
    col.add(rule, "MeritFuctionView.get_jacobian#factor-is-derivative-of-the-map", okf, sx.loc(colscale[0]),
            "the chain-rule factor equals the derivative of the scaled->native map the view applies in __call__", facts)
    # the same map in __call__ and get_jacobian, under the same condition
    csx = sctx(repo, "MeritFuctionView", "__call__", keep=OPT_KEEP | {"_check_for_scalability"})
    a1 = [m_["a"][0] for ev, m_ in csx.calls_some(("call", S.sattr("merit_function"), S.V("a"), S.V("k"))) if m_["a"]]
    a2 = [m_["a"][0] for ev, m_ in sx.calls_some(("call", ("attr", S.sattr("merit_function"), "get_jacobian"), S.V("a"), S.V("k"))) if m_["a"]]
    norm = lambda t, s_: S.subst(t, {s_.P(0): ("glob", "X_")})   # noqa: E731
    ok = len(a1) == 1 and len(a2) == 1 and norm(a1[0], csx) == norm(a2[0], sx) and len(S.alts(a1[0])) == 2
    col.add(rule, "MeritFuctionView.__call__~get_jacobian#same-map", ok, sx.loc(sx.fn),
            "evaluation and Jacobian convert the argument with the same map under the same condition",
            f"{S.show(a1[0])[:70] if a1 else None} / {S.show(a2[0])[:70] if a2 else None}")


def _finite_differences(col, rule="C16.R3"):
    repo = col.repo
    sx = octx(repo, "MeritFunctionForMatch", "get_jacobian")
    cfg = sx.cfg
    q = "MeritFunctionForMatch.get_jacobian"
    xp = sx.P(0)
    xc = S.mcall(npf("array", xp), "copy")
    augs = [e for e in sx.of_kind("store") if e.value is not None and e.value[:1] == ("aug",) and e.target[:1] == ("sub",) and e.target[1] == xc]
    plus = [e for e in augs if e.value[1] == "+"]
    minus = [e for e in augs if e.value[1] == "-"]
    ok = len(plus) == 1 and len(minus) == 1 and plus[0].target == minus[0].target and plus[0].value[3] == minus[0].value[3]
    col.add(rule, f"{q}#perturb-and-restore", ok, sx.loc(plus[0]) if plus else sx.loc(sx.fn),
            "x[i] (of a copy of the caller's x) is increased by steps[i] and afterwards decreased by the same steps[i]",
            f"{[S.show(e.target)[:50] + ' ' + e.value[1] + '= ' + S.show(e.value[3])[:50] for e in augs]}")
    col.add(rule, f"{q}#works-on-a-copy-of-x", bool(augs), sx.loc(sx.fn), "the caller's x is not perturbed", "")
    if ok:
        i = plus[0].target[2]
        step = plus[0].value[3]
        cols = [e for e in sx.of_kind("store") if e.target[:1] == ("sub",) and e.target[2] == ("tuple", (FULL, i))]
        okc = len(cols) == 1
        if okc:
            v = cols[0].value
            mm = S.match(v, ("op", "/", ("op", "-", ("call", S.SELF, S.V("a"), S.V("k")), S.V("f0")), step))
            okc = mm is not None and mm["a"][:1] == (xc,)
            if okc:
                # the *evaluation* f(x + h_i) lies between the perturbation and its undoing (the quotient may be stored later)
                call_t = ("call", S.SELF, mm["a"], mm["k"])
                evals = [ev.nid for ev in sx.of_kind("call") if ev.term == call_t]
                okc = bool(evals) and all(cfg.dominates(plus[0].nid, n_) and cfg.dominates(n_, minus[0].nid) for n_ in evals
                                          if cfg.path_avoiding(plus[0].nid, n_, []))
                okc = okc and any(cfg.path_avoiding(plus[0].nid, n_, []) for n_ in evals)
            if okc:
                f0 = mm["f0"]
                f0p = sx.pnamed("f0") if "f0" in sx.sym.params else None
                okf = f0p is not None and all(a == f0p or (S.is_call_of(a, S.SELF) and a[2][:1] == (xc,)) for a in S.alts(f0)) and f0p in S.alts(f0)
                col.add(rule, f"{q}#f0-at-x", okf, sx.loc(sx.fn), "the base value is f(x) (computed only when not supplied)", S.show(f0)[:80])
                default_only_when_none(col, rule, sx, q, f0p) if f0p is not None else None
        col.add(rule, f"{q}#column-i=(f(x+h_i)-f0)/h_i", okc, sx.loc(cols[0]) if cols else sx.loc(sx.fn),
                "column i is the forward difference (f(x + steps[i] e_i) - f0) / steps[i], computed between the perturbation and its removal", "")
        hdrs = [g.of for g in cfg.guards(plus[0].nid) if g.kind == "T" and isinstance(g.ast, (ast.For, ast.AsyncFor))]
        restored_each = bool(hdrs) and all(cfg.must_pass(plus[0].nid, h, [minus[0].nid]) for h in hdrs) and cfg.must_pass(plus[0].nid, cfg.EXIT, [minus[0].nid])
        col.add(rule, f"{q}#restored-before-next-column", restored_each, sx.loc(minus[0]), "x[i] is restored before the next column is computed", "")
        want_steps = S.mcall(S.SELF, "_knobs_to_x", S.sattr("steps_for_jacobian"))
        col.add(rule, f"{q}#steps-in-solver-space", S.coord(step) is not None and S.coord(step)[0] == want_steps, sx.loc(sx.fn),
                "the knob steps are converted to solver space like the knobs", S.show(step)[:80])
    sx2 = octx(repo, "JacobianSolver", "step")
    X = S.sattr("x")
    Y = ("item", S.mcall(S.SELF, "eval", X), 0)
    gj = sx2.calls_some(("call", ("attr", S.V("f"), "get_jacobian"), (X,), (("f0", Y),)))
    col.add(rule, "JacobianSolver.step#jacobian-at-current-x", len(gj) >= 1, sx2.loc(sx2.fn),
            "the Jacobian is taken at the current point with the residuals just evaluated there", "")


def _by_parameter(pos, kws, names):
    """the arguments of a call by parameter name, whether passed positionally or by keyword (star arguments: cannot tell)"""
    if any(a[:1] == ("uop",) for a in pos) or "**" in dict(kws) or len(pos) > len(names):
        raise AnalysisError("call with star or surplus arguments -- cannot tell which parameter receives what")
    out = dict(zip(names, pos))
    out.update(dict(kws))
    return out


def _truncation_options(col, rule="C16.R4"):
    """the rcond / sing_val_cutoff a Jacobian step solves with are those given to *this* call (None = no truncation): they are
    handed down unchanged Optimize.step -> JacobianSolver.step -> SVD.lstsq and never kept in solver state"""
    repo = col.repo
    jsx = octx(repo, "JacobianSolver", "step")
    calls = jsx.calls_some(("call", ("attr", S.V("svd"), "lstsq"), S.V("a"), S.V("k")))
    if not calls:
        raise AnalysisError("JacobianSolver.step: no lstsq call -- cannot decide")
    for ev, m in calls:
        kws = _by_parameter(m["a"], m["k"], ("b", "rcond", "sing_val_cutoff"))
        for name in ("rcond", "sing_val_cutoff"):
            p = jsx.pnamed(name) if name in jsx.sym.params else None
            got = kws.get(name)
            col.add(rule, f"JacobianSolver.step#{name}-is-this-call's", p is not None and got == p, jsx.loc(ev),
                    f"lstsq is called with the `{name}` argument of this very step() call", f"passed: {S.show(got) if got is not None else 'nothing'}")
    osx = octx(repo, "Optimize", "step")
    for ev, m in osx.calls_some(("call", ("attr", S.sattr("solver"), "step"), S.V("a"), S.V("k"))):
        kws = _by_parameter(m["a"], m["k"], ("rcond", "sing_val_cutoff", "broyden"))
        for name in ("rcond", "sing_val_cutoff"):
            p = osx.pnamed(name) if name in osx.sym.params else None
            col.add(rule, f"Optimize.step#{name}-handed-to-the-solver", p is not None and kws.get(name) == p, osx.loc(ev),
                    f"Optimize.step hands its `{name}` argument to the solver step unchanged", S.show(kws.get(name)) if kws.get(name) is not None else "nothing")


def _scalar_is_sum_of_squares_of_vector(col, rule="C16.R3"):
    """a return_scalar view is the sum of squares of what the vector view returns (MeritFuctionView.get_jacobian reports 2 f0.J as its
    gradient on that strength): both are built from the same residual vector, weights included"""
    sx = octx(col.repo, "MeritFunctionForMatch", "__call__")
    rets = sx.of_kind("return")
    if not rets:
        raise AnalysisError("MeritFunctionForMatch.__call__: no return -- cannot decide")
    scal, vec, other = [], [], []
    for r in rets:
        for a in S.alts(r.value):
            if S.is_call_of(a, ("attr", NP, "sum")) and len(a[2]) == 1:
                arg = a[2][0]
                if arg[:1] == ("op",) and arg[1] == "*":
                    scal.append((r, arg[2], arg[3]))
                elif arg[:1] == ("op",) and arg[1] == "**" and arg[3] == ("const", "2"):
                    scal.append((r, arg[2], arg[2]))
                else:
                    other.append(a)
            elif S.is_call_of(a, ("attr", NP, "dot")) and len(a[2]) == 2:
                scal.append((r, a[2][0], a[2][1]))
            elif S.is_call_of(a, ("attr", NP, "array")) and len(a[2]) == 1:
                vec.append(a[2][0])
            else:
                vec.append(a)
    if not scal or not vec:
        raise AnalysisError("MeritFunctionForMatch.__call__: scalar / vector results not recognised -- cannot decide")
    for r, x, y in scal:
        ok = x == y and any(x == v or S.contains(v, lambda t, x=x: t == x) for v in vec)
        col.add(rule, "MeritFunctionForMatch.__call__#scalar-is-sum-of-squares-of-the-vector", ok, sx.loc(r),
                "the scalar result is sum(v * v) for the very vector v the vector form returns",
                "" if ok else f"sum of ({S.show(x)[-60:]}) * ({S.show(y)[-60:]})")


def check(col: Collector):
    with col.rule():
        _scalar_is_sum_of_squares_of_vector(col)
    with col.rule():
        _truncation_options(col)
    with col.rule():
        _shapes(col)
    with col.rule():
        _truncation(col)
    with col.rule():
        _inverse_pairs(col)
    with col.rule():
        _finite_differences(col)
    # the knob limits reach the solver (and the rescale_x view) through the same knob->x map as the knobs themselves
    from . import c10
    from .common import shared, construct_tag
    with col.rule():
        shared(col, "C16.R5", [c10._limits],
               select=lambda o: o.construct.startswith("MeritFunctionForMatch._get_x_limits#") or construct_tag(o) == "both-limit-sides",
               why="rescale_x maps [0,1] onto the x-limits; limits converted with another factor than the knobs break the inverse pair")
    # round 7: solve() seeds the solver from the current knobs (which also clears the solver's memory of knobs blocked at a limit)
    from . import c09
    with col.rule():
        shared(col, "C16.R6", [c09._solve], select=lambda o: construct_tag(o) == "solver-seeded-from-current-knobs",
               why="a solver not re-seeded keeps mask_from_limits of an earlier run: the first step solves without that knob's column and "
                   "does not land on the solution of a linear problem")
