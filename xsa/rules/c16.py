"""C16 -- Newton step is the least-squares solution; scalings and Jacobians consistent (structural part only)."""
from __future__ import annotations

import ast

from .. import astutil as A
from ..core import AnalysisError, Collector
from ..shapes import Interp, ShapeError, Unsupported
from .common import FnCtx, fnctx, has_guard, is_method_call, is_self_call

PROP = "C16"
FLOORS = {"C16.R1": 6, "C16.R2": 6, "C16.R3": 5, "C16.R4": 4}
META = {
    "explanation": "The statement is numerical; only what is visible without numbers is decided. Symbolic shape inference (distinct symbols "
                   "for m, n, k, the cutoff and a second right-hand-side axis) over SVD.lstsq, the Broyden update, the masked solve and "
                   "the scalar gradient: every product type-checks and results have the required shapes, for 1-D and 2-D right-hand sides; "
                   "U, Vh and s are truncated by one bound on matching axes; singular values are inverted where positive and dropped below "
                   "rcond * s[0]. Inverse pairs by symbolic algebra on the source expressions (sympy on the parsed formulas, nothing is "
                   "executed): weights multiply in _x_to_knobs and divide in _knobs_to_x under the same guard; _scaled_from_native inverts "
                   "_scaled_to_native; the chain-rule factor of the view's Jacobian equals the derivative of the very map the view applies. "
                   "Forward differences perturb x[i] by steps[i], divide by the same steps[i] and restore x[i].",
    "decides": "shape correctness, truncation consistency, algebraic inverse/derivative identities of the scaling maps, finite-difference template",
    "not_decided": "that the result is the minimum-norm solution, convergence of the first step, agreement with finite differences to rounding, signs",
    "assumptions": ["numpy shape semantics of @, dot, outer, diag, boolean-mask indexing as modelled in xsa/shapes.py"],
}


def _shapes(col, rule="C16.R1"):
    repo = col.repo
    cx = fnctx(repo, "SVD", "lstsq")
    body = A.strip_docstring(cx.fn.body)
    for label, bshape, want in (("1-D right-hand side", ("m",), ("n",)), ("2-D right-hand side (stacked columns)", ("m", "r"), ("n", "r"))):
        env = {"self.U": ("m", "k"), "self.Vh": ("k", "n"), "self.s": ("k",), "b": bshape, "rcond": (), "self.rcond": (),
               "self.sing_val_cutoff": (), "sing_val_cutoff": (), "self.empty": ()}
        it = Interp(env, {"sing_val_cutoff": "c"})
        try:
            it.run(body)
            got = [r for r in it.returns if r is not None]
            ok = got == [want]
            facts = f"result shape {got}, expected {want}"
        except ShapeError as e:
            ok, facts = False, str(e)
        except Unsupported as e:
            raise AnalysisError(f"SVD.lstsq: shape interpreter does not support {e}")
        col.add(rule, f"SVD.lstsq#shapes:{label}", ok, cx.loc(cx.fn),
                f"with U: m x k, s: k, Vh: k x n (full_matrices=False), truncated to c singular values, every product in lstsq "
                f"type-checks and the solution has shape {want} for a {label}", facts)
    # SVD.__init__ uses full_matrices=False and stores U, s, Vh in that order
    cx = fnctx(repo, "SVD", "__init__")
    ok = False
    for n in A.walk(cx.fn):
        if isinstance(n, ast.Assign) and isinstance(n.targets[0], ast.Tuple) and isinstance(n.value, ast.Call) and A.call_name(n.value) == "np.linalg.svd":
            ok = [A.dotted(e) for e in n.targets[0].elts] == ["self.U", "self.s", "self.Vh"] and A.dotted(n.value.args[0]) == A.params(cx.fn)[1] \
                and any(k.arg == "full_matrices" and A.is_const(k.value, False) for k in n.value.keywords)
    col.add(rule, "SVD.__init__#economy-svd", ok, cx.loc(cx.fn), "the decomposition is the economy SVD of the given matrix, stored as U, s, Vh", "")
    # Broyden update and masked solve in JacobianSolver.step
    cx = fnctx(repo, "JacobianSolver", "step")
    env = {"self._last_jac": ("p", "q"), "dx": ("q",), "dy": ("p",), "y": ("p",), "self.x": ("q",), "jac": ("p", "q"),
           "mask_output": ("p",), "mask_input": ("q",), "self._last_jac_x": ("q",), "self._last_y": ("p",)}
    found = 0
    for n in A.walk(cx.fn):
        if isinstance(n, ast.Assign) and A.target_names(n.targets[0]) == ["jac"] and "np.outer" in A.src(n.value):
            found += 1
            try:
                sh = Interp(env).ev(n.value)
                ok, facts = sh == ("p", "q"), f"shape {sh}"
            except ShapeError as e:
                ok, facts = False, str(e)
            except Unsupported as e:
                raise AnalysisError(f"JacobianSolver.step: {e}")
            col.add(rule, "JacobianSolver.step#broyden-update-shape", ok, cx.module.loc(n),
                    "the Broyden update J + outer(dy - J dx, dx) / (dx . dx) is a p x q matrix (rows = residuals, columns = knobs)", facts)
        if isinstance(n, ast.Assign) and A.target_names(n.targets[0]) in (["dx"], ["dy"]):
            nm = A.target_names(n.targets[0])[0]
            try:
                sh = Interp(env).ev(n.value)
                ok = sh == env[nm]
                col.add(rule, f"JacobianSolver.step#{nm}-shape", ok, cx.module.loc(n),
                        f"{nm} is the difference of {'points' if nm == 'dx' else 'residual vectors'}", f"{A.src(n.value)} : {sh}")
            except (ShapeError, Unsupported) as e:
                col.add(rule, f"JacobianSolver.step#{nm}-shape", False, cx.module.loc(n), f"{nm} shape", str(e))
    if found != 1:
        raise AnalysisError("JacobianSolver.step: Broyden update not found")
    for n in A.walk(cx.fn):
        if isinstance(n, ast.Call) and A.call_name(n) == "SVD" and n.args:
            try:
                sh = Interp(env).ev(n.args[0])
                ok = sh == ("sel(mask_output)", "sel(mask_input)")
                facts = f"shape {sh}"
            except ShapeError as e:
                ok, facts = False, str(e)
            except Unsupported as e:
                raise AnalysisError(f"JacobianSolver.step: {e}")
            col.add(rule, "JacobianSolver.step#masked-matrix-shape", ok, cx.module.loc(n),
                    "the matrix handed to the SVD is (active targets) x (free knobs): the output mask selects rows, the input mask columns", facts)
    # scalar gradient
    cx = fnctx(repo, "MeritFuctionView", "get_jacobian")
    rets = [n for n in A.walk(cx.fn) if isinstance(n, ast.Return) and "np.dot" in A.src(n.value)]
    if len(rets) != 1:
        raise AnalysisError("MeritFuctionView.get_jacobian: scalar gradient return not found")
    try:
        sh = Interp({"f0": ("p",), "jac": ("p", "q")}).ev(rets[0].value)
        ok, facts = sh == ("q",), f"shape {sh}"
    except ShapeError as e:
        ok, facts = False, str(e)
    col.add(rule, "MeritFuctionView.get_jacobian#scalar-gradient-shape", ok, cx.module.loc(rets[0]),
            "the gradient of the scalar merit 2 * f . J has one entry per knob", facts)
    ok = A.src(rets[0].value).replace(" ", "") in ("2*np.dot(f0,jac)", "np.dot(f0,jac)*2", "2.0*np.dot(f0,jac)")
    col.add(rule, "MeritFuctionView.get_jacobian#scalar-gradient-factor", ok, cx.module.loc(rets[0]),
            "d/dx sum(f^2) = 2 f . J", A.src(rets[0].value))


def _truncation(col, rule="C16.R4"):
    repo = col.repo
    cx = fnctx(repo, "SVD", "lstsq")
    slices = {}
    for n in A.walk(cx.fn):
        if isinstance(n, ast.Assign) and isinstance(n.value, ast.Subscript) and A.dotted(n.value.value) in ("self.U", "self.Vh", "self.s"):
            slices[A.dotted(n.value.value)] = A.sl(n.value.slice)
    b = A.params(cx.fn)[3] if len(A.params(cx.fn)) > 3 else "sing_val_cutoff"
    want = {"self.U": f"(slice(None, None, None), slice(None, {b}, None))", "self.Vh": "", "self.s": ""}
    ok = slices.get("self.U") == f":, :{b}" and slices.get("self.Vh") == f":{b}, :" and slices.get("self.s") == f":{b}"
    col.add(rule, "SVD.lstsq#one-bound-on-matching-axes", ok, cx.loc(cx.fn),
            "U's columns, Vh's rows and s are truncated by the same bound", str(slices))
    ok = not A.has_fragments(cx.fn, ["{L}[{L} > 0] = 1 / {L}[{L} > 0]"])
    col.add(rule, "SVD.lstsq#positive-singular-values-inverted", ok, cx.loc(cx.fn), "the inverse singular values are 1/s where s > 0 and 0 elsewhere", "")
    ok = not A.has_fragments(cx.fn, ["{L}[{L} < {P2} * {L}[0]] = 0"])
    col.add(rule, "SVD.lstsq#rcond-relative-to-largest", ok, cx.loc(cx.fn),
            "singular values below rcond times the largest one are dropped", "")
    dfl = []
    for n in cx.cfg.nodes.values():
        if n.kind == "stmt" and isinstance(n.ast, ast.Assign) and A.target_names(n.ast.targets[0]) in (["rcond"], ["sing_val_cutoff"]):
            nm = A.target_names(n.ast.targets[0])[0]
            from .common import test_is_none
            dfl.append(has_guard(cx.cfg, n.id, "T", lambda t, nm=nm: test_is_none(t, nm)) and A.src(n.ast.value) == f"self.{nm}")
    col.add(rule, "SVD.lstsq#defaults-only-when-None", len(dfl) == 2 and all(dfl), cx.loc(cx.fn),
            "rcond / sing_val_cutoff fall back to the constructor's values only when not given", "")
    cx = fnctx(repo, "SVD", "__init__")
    ok = not A.has_fragments(cx.fn, ["self.sing_val_cutoff = len(self.s)"])
    col.add(rule, "SVD.__init__#default-cutoff-keeps-all", ok, cx.loc(cx.fn), "by default all singular values are kept", "")


def _to_sympy(e, alias, sub=None):
    import sympy as sp
    sub = sub or {}
    if isinstance(e, ast.Constant) and isinstance(e.value, (int, float)):
        return sp.nsimplify(e.value)
    if isinstance(e, ast.Name):
        if e.id in sub:
            return sub[e.id]
        if e.id in alias:
            return _to_sympy(alias[e.id], alias, sub)
        return sp.Symbol(e.id)
    if isinstance(e, ast.Subscript):
        base = A.dotted(e.value) or A.src(e.value)
        base = {"self.rescale_x": "scaled_range"}.get(base, base)
        if base in alias and isinstance(alias[base], (ast.Attribute,)):
            base = {"self.rescale_x": "scaled_range"}.get(A.dotted(alias[base]), base)
        idx = A.sl(e.slice).replace(" ", "")
        idx = {":,0": "0", ":,1": "1"}.get(idx, idx)
        return sp.Symbol(f"{base}_{idx}")
    if isinstance(e, ast.BinOp):
        l, r = _to_sympy(e.left, alias, sub), _to_sympy(e.right, alias, sub)
        if isinstance(e.op, ast.Add):
            return l + r
        if isinstance(e.op, ast.Sub):
            return l - r
        if isinstance(e.op, ast.Mult):
            return l * r
        if isinstance(e.op, ast.Div):
            return l / r
    if isinstance(e, ast.UnaryOp) and isinstance(e.op, ast.USub):
        return -_to_sympy(e.operand, alias, sub)
    raise Unsupported(f"formula `{A.src(e)}`")


def _map_expr(repo, name):
    from ..refsmodel import _local_alias
    fn = repo.method("MeritFuctionView", name)
    alias = _local_alias(fn)
    alias = {k: v for k, v in alias.items() if not isinstance(v, ast.Call)}
    rets = [n.value for n in A.walk(fn) if isinstance(n, ast.Return)]
    if len(rets) != 1:
        raise AnalysisError(f"MeritFuctionView.{name}: single return expected")
    xp = A.params(fn)[1]
    import sympy as sp
    return fn, _to_sympy(rets[0], alias, {xp: sp.Symbol("x")})


def _inverse_pairs(col, rule="C16.R2"):
    repo = col.repo
    import sympy as sp
    m = repo.cls("MeritFunctionForMatch").module
    # weights
    info = {}
    for name, op in (("_x_to_knobs", ast.Mult), ("_knobs_to_x", ast.Div)):
        cx = fnctx(repo, "MeritFunctionForMatch", name)
        augs = [n for n in cx.cfg.nodes.values() if n.kind == "stmt" and isinstance(n.ast, ast.AugAssign)]
        ok = len(augs) == 1 and isinstance(augs[0].ast.op, op) and A.src(augs[0].ast.value).endswith(".weight") and isinstance(augs[0].ast.target, ast.Subscript)
        guard = None
        if ok:
            gs = cx.cfg.cond_guards(augs[0].id)
            guard = [g.kind + ":" + A.src(g.ast) for g in gs]
            loops = [g for g in cx.cfg.guards(augs[0].id) if g.kind == "T" and isinstance(g.ast, ast.For)]
            ok = len(loops) == 1 and A.src(loops[0].ast.iter) == "enumerate(self.vary)" and \
                A.target_names(loops[0].ast.target)[0] == A.dotted(augs[0].ast.target.slice)
        info[name] = guard
        col.add(rule, f"MeritFunctionForMatch.{name}#{'multiplies' if op is ast.Mult else 'divides'}-by-weight", ok, cx.loc(cx.fn),
                f"{name} {'multiplies' if op is ast.Mult else 'divides'} coordinate i by the weight of knob i, for every knob", str(guard))
        copy_ok = any(isinstance(n, ast.Assign) and ".copy()" in A.src(n.value) and A.params(cx.fn)[1] in A.names_loaded(n.value) for n in A.walk(cx.fn))
        col.add(rule, f"MeritFunctionForMatch.{name}#works-on-a-copy", copy_ok, cx.loc(cx.fn), "the argument is not modified in place", "")
    col.add(rule, "MeritFunctionForMatch._x_to_knobs~_knobs_to_x#same-guard", info["_x_to_knobs"] == info["_knobs_to_x"] and info["_x_to_knobs"] is not None, m.rel,
            "the two weight conversions apply under the same condition, so they are inverse to each other", str(info))
    # affine maps
    try:
        f1, to_native = _map_expr(repo, "_scaled_to_native")
        f2, from_native = _map_expr(repo, "_scaled_from_native")
    except Unsupported as e:
        raise AnalysisError(f"scaling maps: {e}")
    x = sp.Symbol("x")
    comp1 = sp.simplify(from_native.subs(x, to_native) - x)
    comp2 = sp.simplify(to_native.subs(x, from_native) - x)
    col.add(rule, "MeritFuctionView._scaled_from_native(_scaled_to_native(x))==x", comp1 == 0, m.loc(f2),
            "mapping a scaled point to native space and back is the identity (symbolic algebra on the two formulas)", f"difference: {comp1}")
    col.add(rule, "MeritFuctionView._scaled_to_native(_scaled_from_native(x))==x", comp2 == 0, m.loc(f1),
            "mapping a native point to scaled space and back is the identity", f"difference: {comp2}")
    b0, b1, s0 = sp.Symbol("bounds_0"), sp.Symbol("bounds_1"), sp.Symbol("scaled_range_0")
    s1 = sp.Symbol("scaled_range_1")
    ends = sp.simplify(to_native.subs(x, s0) - b0) == 0 and sp.simplify(to_native.subs(x, s1) - b1) == 0
    col.add(rule, "MeritFuctionView._scaled_to_native#maps-interval-ends-to-limits", ends, m.loc(f1),
            "the ends of the scaled interval map to the lower and upper limit", f"{to_native}")
    # chain-rule factor in get_jacobian
    cx = fnctx(repo, "MeritFuctionView", "get_jacobian")
    from ..refsmodel import _local_alias
    alias = _local_alias(cx.fn)
    fac_name = None
    colscale = [n for n in A.walk(cx.fn) if isinstance(n, ast.AugAssign) and isinstance(n.op, ast.Mult) and isinstance(n.target, ast.Subscript)]
    ok = len(colscale) == 1 and isinstance(colscale[0].value, ast.Subscript)
    if ok:
        fac_name = A.dotted(colscale[0].value.value)
        jj = A.dotted(colscale[0].value.slice)
        ok = A.sl(colscale[0].target.slice) == f":, {jj}"
    col.add(rule, "MeritFuctionView.get_jacobian#column-j-scaled-by-factor-j", ok, cx.loc(cx.fn),
            "column j of the native Jacobian is multiplied by d native_j / d scaled_j", A.src(colscale[0]) if colscale else "")
    if fac_name and fac_name in alias:
        expr = alias[fac_name]
        xp = A.params(cx.fn)[1]

        def conv(e):
            # self._scaled_to_native(arg) -> the map applied to arg; arg built from 0*x / 1+0*x
            if isinstance(e, ast.Call) and is_self_call(e, "_scaled_to_native") and len(e.args) == 1:
                return to_native.subs(x, conv(e.args[0]))
            if isinstance(e, ast.Name) and e.id in alias and e.id != xp:
                return conv(alias[e.id])
            if isinstance(e, ast.Name) and e.id == xp:
                return x
            if isinstance(e, ast.BinOp):
                l, r = conv(e.left), conv(e.right)
                return {ast.Add: l + r, ast.Sub: l - r, ast.Mult: l * r, ast.Div: l / r}[type(e.op)]
            return _to_sympy(e, {k: v for k, v in alias.items() if not isinstance(v, ast.Call)})
        try:
            fac = sp.simplify(conv(expr))
            deriv = sp.simplify(sp.diff(to_native, x))
            okf = sp.simplify(fac - deriv) == 0
            facts = f"factor = {fac}; d(_scaled_to_native)/dx = {deriv}"
        except (Unsupported, KeyError) as e:
            raise AnalysisError(f"MeritFuctionView.get_jacobian: chain-rule factor not understood: {e}")
        col.add(rule, "MeritFuctionView.get_jacobian#factor-is-derivative-of-the-map", okf, cx.loc(cx.fn),
                "the chain-rule factor equals the derivative of the scaled->native map the view applies in __call__", facts)
    else:
        raise AnalysisError("MeritFuctionView.get_jacobian: chain-rule factor not found")
    # the same map in __call__ and get_jacobian, under the same condition
    call = repo.method("MeritFuctionView", "__call__")
    ok = not A.has_fragments(call, ["if self.rescale_x:", "{P1} = self._scaled_to_native({P1})"]) and \
        not A.has_fragments(cx.fn, ["if self.rescale_x:", "{P1} = self._scaled_to_native({P1})"])
    col.add(rule, "MeritFuctionView.__call__~get_jacobian#same-map", ok, cx.loc(cx.fn),
            "evaluation and Jacobian convert the argument with the same map under the same condition", "")


def _finite_differences(col, rule="C16.R3"):
    repo = col.repo
    cx = fnctx(repo, "MeritFunctionForMatch", "get_jacobian")
    cfg = cx.cfg
    q = "MeritFunctionForMatch.get_jacobian"
    xp = A.params(cx.fn)[1]
    augs = [n for n in cfg.nodes.values() if n.kind == "stmt" and isinstance(n.ast, ast.AugAssign) and isinstance(n.ast.target, ast.Subscript)
            and A.dotted(n.ast.target.value) == xp]
    plus = [n for n in augs if isinstance(n.ast.op, ast.Add)]
    minus = [n for n in augs if isinstance(n.ast.op, ast.Sub)]
    ok = len(plus) == 1 and len(minus) == 1 and A.src(plus[0].ast.target) == A.src(minus[0].ast.target) and A.src(plus[0].ast.value) == A.src(minus[0].ast.value)
    col.add(rule, f"{q}#perturb-and-restore", ok, cx.loc(plus[0].id) if plus else cx.loc(cx.fn),
            "x[i] is increased by steps[i] and afterwards decreased by the same steps[i]", "")
    if ok:
        ii = A.src(plus[0].ast.target.slice)
        step = A.src(plus[0].ast.value)
        cols = [n for n in cfg.nodes.values() if n.kind == "stmt" and isinstance(n.ast, ast.Assign) and isinstance(n.ast.targets[0], ast.Subscript)
                and A.sl(n.ast.targets[0].slice) == f":, {ii}"]
        okc = len(cols) == 1
        if okc:
            v = cols[0].ast.value
            okc = isinstance(v, ast.BinOp) and isinstance(v.op, ast.Div) and A.src(v.right) == step and isinstance(v.left, ast.BinOp) \
                and isinstance(v.left.op, ast.Sub) and isinstance(v.left.left, ast.Call) and A.dotted(v.left.left.func) == "self" \
                and A.dotted(v.left.left.args[0]) == xp
            order = cfg.dominates(plus[0].id, cols[0].id) and cfg.dominates(cols[0].id, minus[0].id)
            okc = okc and order
            f0 = A.dotted(v.left.right) if isinstance(v, ast.BinOp) and isinstance(v.left, ast.BinOp) else None
        col.add(rule, f"{q}#column-i=(f(x+h_i)-f0)/h_i", okc, cx.loc(cols[0].id) if cols else cx.loc(cx.fn),
                "column i is the forward difference (f(x + steps[i] e_i) - f0) / steps[i], computed between the perturbation and its removal", "")
        restored_each = all(cfg.must_pass(plus[0].id, l, [minus[0].id]) for l in [g.of for g in cfg.guards(plus[0].id) if g.kind == "T" and isinstance(g.ast, ast.For)])
        col.add(rule, f"{q}#restored-before-next-column", restored_each, cx.loc(minus[0].id),
                "x[i] is restored before the next column is computed", "")
    steps = [n for n in A.walk(cx.fn) if isinstance(n, ast.Assign) and A.src(n.value) == "self._knobs_to_x(self.steps_for_jacobian)"]
    col.add(rule, f"{q}#steps-in-solver-space", len(steps) == 1, cx.loc(cx.fn), "the knob steps are converted to solver space like the knobs", "")
    f0s = [n for n in cfg.nodes.values() if n.kind == "stmt" and isinstance(n.ast, ast.Assign) and A.target_names(n.ast.targets[0]) == ["f0"]]
    from .common import test_is_none
    okf = all(has_guard(cfg, n.id, "T", lambda t: test_is_none(t, "f0")) and A.src(n.ast.value) == f"self({xp})" for n in f0s) and bool(f0s)
    col.add(rule, f"{q}#f0-at-x", okf, cx.loc(cx.fn), "the base value is f(x) (computed only when not supplied)", "")
    cpy = [n for n in A.walk(cx.fn) if isinstance(n, ast.Assign) and A.target_names(n.targets[0]) == [xp] and ".copy()" in A.src(n.value)]
    col.add(rule, f"{q}#works-on-a-copy-of-x", len(cpy) == 1, cx.loc(cx.fn), "the caller's x is not perturbed", "")
    # solver passes f0 = y evaluated at the same x
    cx2 = fnctx(repo, "JacobianSolver", "step")
    ok = not A.has_fragments(cx2.fn, ["{L}.get_jacobian(self.x, f0={L})", "{L}, {L} = self.eval(self.x)"])
    col.add(rule, "JacobianSolver.step#jacobian-at-current-x", ok, cx2.loc(cx2.fn), "the Jacobian is taken at the current point with the residuals just evaluated there", "")


def check(col: Collector):
    _shapes(col)
    _truncation(col)
    _inverse_pairs(col)
    _finite_differences(col)
