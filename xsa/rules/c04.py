"""C04 -- deferred expressions evaluate to what Python computes on the operand values.

Every obligation compares *symbolic terms* (xsa.sym) of the normalised methods: what a dunder returns, what a node
class's _get_value computes from which fields, what a constructor stores where.  Temporaries, helper functions,
flipped conditionals and conditional expressions do not change the terms.
"""
from __future__ import annotations

import ast

from .. import astutil as A
from .. import pydata as PD
from .. import sym as S
from ..core import AnalysisError, Collector
from ..refterms import BASEREF, RefModel, in_handler, is_ref_test, mk, unmk
from .common import sctx

PROP = "C04"
FLOORS = {"C04.R1": 100, "C04.R2": 9, "C04.R3": 20, "C04.R4": 14, "C04.R5": 22, "C04.R6": 10, "C04.R7": 5, "C04.R8": 20}
META = {
    "explanation": "Structural induction: for every operator dunder of BaseRef (Python data-model table) the node class built, the "
                   "operand order, the operator applied by that class's _get_value to the _mk_value of its operand fields and the "
                   "printed operator token are the ones Python prescribes; likewise unary operators, the builtin dunders, the in-place "
                   "table of MutableRef (and the lookup of the current expression it relies on), the leaves (item/attribute access, "
                   "calls) and _mk_value itself; the only handlers in any _get_value are the three documented ZeroDivisionError->NaN "
                   "guards. Compared as symbolic terms after helper inlining.",
    "decides": "the homomorphism node-by-node (operator identity, operand order, evaluation of every operand slot), exhaustively over "
               "the operator table",
    "not_decided": "per-type numeric semantics (they are Python's own by the induction); numpy left-operand dispatch (excluded by the property)",
    "assumptions": ["Python's data model (xsa/pydata.py)"],
}

_MODELS = {}


def model(col) -> RefModel:
    key = id(col.repo)
    if key not in _MODELS:
        _MODELS.clear()
        _MODELS[key] = RefModel(col.repo)
    return _MODELS[key]


def _main_returns(rm: RefModel, cname: str, meth: str):
    return [(ev, v, c) for ev, v, c, h in rm.returns(cname, meth) if not h]


def value_term_ok(rm: RefModel, cname: str, kind: str, tok: str, fields):
    """every non-handler return of cname._get_value is `_mk_value(f1) tok _mk_value(f2)` (operands in this order)"""
    rets = _main_returns(rm, cname, "_get_value")
    if not rets:
        return False, "no return"
    for ev, v, c in rets:
        for a in S.alts(v):
            if kind == "bin":
                if not (a[:1] in (("op",), ("cmp",)) and a[1] == tok and unmk(a[2]) == S.sattr(fields[0]) and unmk(a[3]) == S.sattr(fields[1])):
                    return False, f"computes {S.show(a)}"
            else:
                if not (a[:1] == ("uop",) and a[1] == tok and unmk(a[2]) == S.sattr(fields[0])):
                    return False, f"computes {S.show(a)}"
    return True, S.show(rets[0][1])


def _binary(col, rule="C04.R1"):
    repo = col.repo
    rm = model(col)
    base = repo.cls("BaseRef")
    table = []
    for fwd, (op, tok, refl, _) in PD.BINARY.items():
        table.append((fwd, tok, "fwd"))
        table.append((refl, tok, "refl"))
    for nm, (op, tok) in PD.COMPARE.items():
        table.append((nm, tok, "fwd"))
    for nm, (op, tok) in PD.EQUALITY_HELPERS.items():
        table.append((nm, tok, "fwd"))
    for dunder, tok, mode in table:
        q = f"BaseRef.{dunder}"
        if dunder not in base.methods:
            col.fail(rule, f"{q}#defined", base.module.loc(base.node),
                     f"BaseRef defines {dunder} (otherwise `{tok}` with a ref on that side raises or falls back)", "missing")
            continue
        sx = rm.sx("BaseRef", dunder)
        rets = sx.of_kind("return")
        if not rets:
            col.fail(rule, f"{q}#builds-node", sx.loc(sx.fn), f"{dunder} returns a node class applied to its two operands", "no return")
            continue
        other = sx.P(0)
        want_args = (S.SELF, other) if mode == "fwd" else (other, S.SELF)
        ks = set()
        ok_order, facts = True, ""
        for r in rets:
            for a in S.alts(r.value):
                if not (S.is_call_of(a) and a[1][:1] == ("glob",) and a[1][1] in rm.by_name):
                    ok_order, facts = False, f"returns {S.show(a)}"
                    continue
                ks.add(a[1][1])
                ctor = repo.lookup(rm.cls(a[1][1]), "__cinit__") or repo.lookup(rm.cls(a[1][1]), "__init__")
                names = A.params(ctor[1])[1:] if ctor else []
                got_args = S.call_args(a, names) if names else (a[2] if not a[3] else None)
                if got_args != want_args:
                    ok_order, facts = False, f"returns {S.show(a)}"
        col.add(rule, f"{q}#operand-order", ok_order, sx.loc(rets[0]),
                f"{dunder} builds its node with the operands in Python's order ({'self OP other' if mode == 'fwd' else 'other OP self'}) "
                "on every path", facts or S.show(rets[0].value))
        col.add(rule, f"{q}#one-node-class", len(ks) == 1, sx.loc(rets[0]),
                f"{dunder} builds the same node class whatever the operands are", f"{sorted(ks)}")
        for k in sorted(ks):
            okv, fv = value_term_ok(rm, k, "bin", tok, ("_lhs", "_rhs"))
            gsx = rm.sx(k, "_get_value")
            col.add(rule, f"{q}#operator:{k}", okv, gsx.loc(gsx.fn) if gsx else sx.loc(sx.fn),
                    f"the node built by {dunder} evaluates `_mk_value(_lhs) {tok} _mk_value(_rhs)`", f"{k}._get_value: {fv}")
            ts = repo.class_const(rm.cls(k), "_op_str")
            col.add(rule, f"{q}#token:{k}", A.const(ts) == tok, rm.cls(k).module.loc(rm.cls(k).node),
                    f"{k} prints the operator as `{tok}`", f"_op_str = {A.src(ts)}")
            pf = {}
            for m in rm.param_fields(k).values():
                pf.update(m)
            col.add(rule, f"{q}#ctor-fields:{k}", pf.get(0) == "_lhs" and pf.get(1) == "_rhs", rm.cls(k).module.loc(rm.cls(k).node),
                    f"{k}(a, b) stores a as _lhs and b as _rhs", str(pf))
    seen = {}
    for c in rm.classes:
        if repo.is_subclass(c, "BinOpExpr") and c.name != "BinOpExpr":
            t = A.const(repo.class_const(c, "_op_str"))
            seen.setdefault(t, []).append(c.name)
    dup = {t: ks for t, ks in seen.items() if len(ks) > 1}
    col.add(rule, "BinOpExpr#distinct-tokens", not dup, base.module.rel, "binary node classes print pairwise distinct operator tokens", str(dup))
    for nm in PD.NON_PROTOCOL:
        if nm in base.methods:
            sx = rm.sx("BaseRef", nm)
            for r in sx.of_kind("return"):
                if S.is_call_of(r.value) and len(r.value[2]) != 2:
                    col.add(rule, f"BaseRef.{nm}#non-protocol", False, sx.loc(r),
                            f"{nm} is not a Python protocol name (never called by the interpreter); cross-reference only",
                            S.show(r.value), note=True)


def _unary(col, rule="C04.R2"):
    repo = col.repo
    rm = model(col)
    base = repo.cls("BaseRef")
    for dunder, (op, tok) in PD.UNARY.items():
        q = f"BaseRef.{dunder}"
        if dunder not in base.methods:
            col.fail(rule, f"{q}#defined", base.module.loc(base.node), f"BaseRef defines {dunder}", "missing")
            continue
        sx = rm.sx("BaseRef", dunder)
        rets = sx.of_kind("return")
        ks = set()
        ok = bool(rets)
        for r in rets:
            for a in S.alts(r.value):
                if S.is_call_of(a) and a[1][:1] == ("glob",) and a[1][1] in rm.by_name and a[2] == (S.SELF,) and not a[3]:
                    ks.add(a[1][1])
                else:
                    ok = False
        col.add(rule, f"{q}#builds-node", ok and len(ks) == 1, sx.loc(sx.fn), f"{dunder} builds a unary node over self",
                S.show(rets[0].value) if rets else "")
        for k in sorted(ks):
            okv, fv = value_term_ok(rm, k, "un", tok, ("_arg",))
            col.add(rule, f"{q}#operator:{k}", okv, sx.loc(sx.fn), f"the node evaluates `{tok}_mk_value(_arg)`", fv)
            ts = repo.class_const(rm.cls(k), "_op_str")
            col.add(rule, f"{q}#token:{k}", A.const(ts) == tok, sx.loc(sx.fn), f"prints `{tok}`", A.src(ts))


def _glob_path(t):
    """dotted name of a term made of globals and attributes"""
    parts = []
    while t[:1] == ("attr",):
        parts.append(t[2])
        t = t[1]
    if t[:1] == ("glob",):
        parts.append(t[1])
        return ".".join(reversed(parts))
    return None


def _builtins(col, rule="C04.R3"):
    repo = col.repo
    rm = model(col)
    base = repo.cls("BaseRef")
    for dunder, (target, extra, defaults) in PD.BUILTINS.items():
        q = f"BaseRef.{dunder}"
        if dunder not in base.methods:
            col.fail(rule, f"{q}#defined", base.module.loc(base.node), f"BaseRef defines {dunder}", "missing")
            continue
        sx = rm.sx("BaseRef", dunder)
        fn = base.methods[dunder]
        ps = [t for t in sx.sym.params.values() if t[:1] == ("param",)]
        ps.sort(key=lambda t: t[1])
        rets = sx.of_kind("return")
        ok, facts = bool(rets), []
        for r in rets:
            for a in S.alts(r.value):
                if not (S.is_call_of(a, ("glob", "BuiltinRef")) and len(a[2]) >= 2 and a[2][0] == S.SELF):
                    ok = False
                    facts.append(S.show(a))
                    continue
                if _glob_path(a[2][1]) != target:
                    ok = False
                    facts.append(f"defers to {S.show(a[2][1])}, expected {target}")
                passed = []
                third = a[2][2] if len(a[2]) >= 3 else dict(a[3]).get("params")
                if third is not None:
                    if third[:1] == ("tuple",):
                        passed = list(third[1])
                    else:
                        ok = False
                        facts.append(f"params {S.show(third)}")
                if passed != ps and not (len(rets) > 1 and passed == []):
                    ok = False
                    facts.append(f"forwards {[S.show(x) for x in passed]}, dunder receives {[S.show(x) for x in ps]}")
        col.add(rule, f"{q}#defers-to-builtin", ok, sx.loc(sx.fn),
                f"{dunder} builds BuiltinRef(self, {target}, <exactly the arguments Python passes>)", "; ".join(facts))
        pnames = [t[2] for t in ps]
        dfl = A.param_defaults(fn)
        okd = len(pnames) == len(extra)
        for p, name in zip(pnames, extra):
            if name in defaults:
                okd = okd and p in dfl and A.const(dfl[p]) == defaults[name] and (defaults[name] is not None or A.is_none(dfl[p]))
            else:
                okd = okd and p not in dfl
        col.add(rule, f"{q}#parameter-defaults", okd, sx.loc(sx.fn),
                f"{dunder}'s extra parameters and defaults are those of {target} (round's ndigits defaults to None)",
                f"params {pnames} defaults { {k: A.src(v) for k, v in dfl.items()} }")
        bad = []
        for n in sx.cfg.nodes.values():
            if n.kind == "test":
                t = sx.sym.of(n.ast, n.id)
                for c in S.conjuncts(S.norm_cond(True, t)) + S.conjuncts(S.norm_cond(False, t)):
                    if c in ps or (c[:1] == ("uop",) and c[1] == "not" and c[2] in ps):
                        bad.append(S.show(c))
        col.add(rule, f"{q}#no-truthiness-test-on-argument", not bad, sx.loc(sx.fn),
                "an extra argument is never tested by truthiness (0 / False are legitimate values distinct from 'not given')", str(bad))
    # BuiltinRef._get_value applies _op to the evaluated arg and every evaluated param
    sx = rm.sx("BuiltinRef", "_get_value")
    rets = _main_returns(rm, "BuiltinRef", "_get_value")
    ok, facts = len(rets) >= 1, ""
    for ev, v, c in rets:
        facts = S.show(v)
        good = S.is_call_of(v, S.sattr("_op")) and len(v[2]) == 2 and not v[3] and unmk(v[2][0]) == S.sattr("_arg")
        if good:
            st = v[2][1]
            good = st[:1] == ("uop",) and st[1] == "*"
            if good:
                g = st[2]
                if S.is_call_of(g) and g[1] in (("glob", "tuple"), ("glob", "list")) and len(g[2]) == 1:
                    g = g[2][0]
                good = g[:1] == ("acc",) and len(g[2]) == 1 and g[2][0][0] == "one" and not g[2][0][1] and \
                    unmk(g[2][0][2]) == ("elem", S.sattr("_params"))
        ok = ok and good
    col.add(rule, "BuiltinRef._get_value#applies-op", ok, sx.loc(sx.fn),
            "BuiltinRef evaluates to _op(_mk_value(_arg), *(_mk_value(p) for p in _params)) -- every parameter, in order", facts)
    pf = rm.param_fields("BuiltinRef").get("BuiltinRef", {})
    col.add(rule, "BuiltinRef.__cinit__#fields", [pf.get(i) for i in range(3)] == ["_arg", "_op", "_params"],
            rm.cls("BuiltinRef").module.loc(rm.cls("BuiltinRef").node), "BuiltinRef(arg, op, params) stores them as _arg, _op, _params", str(pf))
    dfl = A.param_defaults(rm.cls("BuiltinRef").methods["__cinit__"]) if rm.own("BuiltinRef", "__cinit__") else {}
    pname = [t[2] for t in rm.cinits("BuiltinRef")[0][1].sym.params.values() if t[:1] == ("param",) and t[1] == 2]
    col.add(rule, "BuiltinRef.__cinit__#params-default", bool(pname) and pname[0] in dfl and A.src(dfl[pname[0]]) == "()",
            rm.cls("BuiltinRef").module.loc(rm.cls("BuiltinRef").node),
            "BuiltinRef's params default to the empty tuple (no extra argument is passed to the builtin)", str({k: A.src(v) for k, v in dfl.items()}))


EXPR = S.sattr("_expr")
CUR = S.mcall(S.SELF, "_get_value")


def _expr_present(c) -> bool:
    return c == EXPR or c == ("cmp", "is not", EXPR, ("const", "None"))


def _expr_absent(c) -> bool:
    return c == ("uop", "not", EXPR) or c == ("cmp", "is", EXPR, ("const", "None"))


def inplace_rules(col, rule="C04.R4"):
    repo = col.repo
    rm = model(col)
    mr = repo.cls("MutableRef")
    for fwd, (op, tok, _, ip) in PD.BINARY.items():
        q = f"MutableRef.{ip}"
        if ip not in mr.methods:
            col.fail(rule, f"{q}#defined", mr.module.loc(mr.node),
                     f"MutableRef defines {ip} (otherwise `ref {tok}= x` falls back to {fwd} and registers a self-referential expression)",
                     "missing")
            continue
        sx = rm.sx("MutableRef", ip)
        other = sx.P(0)
        rets = sx.of_kind("return")
        lefts, facts = set(), []
        for r in rets:
            conds = sx.conds(r.nid)
            for a in S.alts(r.value):
                if not (a[:1] == ("op",) and a[1] == tok and a[3] == other):
                    facts.append(f"returns {S.show(a)}")
                    continue
                for l in S.alts(a[2]):
                    if l == ("bool", "or", (EXPR, CUR)):
                        # `self._expr or self._get_value()`: the expression when there is a (truthy) one, else the value
                        lefts.update(("expr", "value"))
                    elif l == EXPR:
                        lefts.add("expr")
                        if any(_expr_absent(c) for c in conds):
                            facts.append("the expression form is returned when there is no expression")
                    elif l == CUR:
                        lefts.add("value")
                        if any(_expr_present(c) for c in conds):
                            facts.append("the value form is returned although there is an expression")
                    else:
                        facts.append(f"left operand {S.show(l)}")
            # separate returns must be told apart by the presence of the expression
            if len(S.alts(r.value)) == 1 and r.value[:1] == ("op",) and len(S.alts(r.value[2])) == 1:
                if r.value[2] == EXPR and not any(_expr_present(c) for c in conds):
                    facts.append("the expression form is not guarded by the presence of an expression")
                if r.value[2] == CUR and not any(_expr_absent(c) for c in conds):
                    facts.append("the value form is not guarded by the absence of an expression")
        ok = lefts == {"expr", "value"} and not facts
        col.add(rule, f"{q}#old-expr-or-old-value-{tok}-other", ok, sx.loc(sx.fn),
                f"{ip} returns (current expression {tok} other) when the location has an expression, else (current value {tok} other)",
                "; ".join(facts) or str(sorted(lefts)))
        col.add(rule, f"{q}#every-path-returns", sx.cfg.must_pass(sx.cfg.ENTRY, sx.cfg.EXIT, [r.nid for r in rets]), sx.loc(sx.fn),
                "every path returns one of the two forms", "")
    # the current expression of a location is the definition registered under this very reference
    sx = rm.sx("MutableRef", "_expr")
    if sx is None:
        raise AnalysisError("MutableRef._expr vanished")
    tasks = ("attr", S.sattr("_manager"), "tasks")
    lookups = (("sub", tasks, S.SELF), S.mcall(tasks, "get", S.SELF), S.mcall(tasks, "get", S.SELF, ("const", "None")))
    ok, facts, n = True, [], 0
    for r in sx.of_kind("return"):
        for a in S.alts(r.value):
            if a == ("const", "None"):
                continue
            n += 1
            if S.is_call_of(a, ("glob", "getattr")) and len(a[2]) == 3 and a[2][0] in lookups and a[2][1] == ("const", repr("expr")) \
                    and a[2][2] == ("const", "None"):
                continue        # getattr(tasks[self], "expr", None)
            if not (a[:1] == ("attr",) and a[2] == "expr" and a[1] in lookups):
                ok = False
                facts.append(f"returns {S.show(a)}")
    # ... looked up only when the reference identifies a task, and only a task that carries an expression
    member = ("cmp", "in", S.SELF, tasks)
    # ... or the lookup sits in a try whose handler takes the KeyError of a reference that identifies no task
    eafp = any(isinstance(t_, ast.Try) and any(isinstance(x_, ast.Subscript) and isinstance(x_.value, ast.Attribute) and x_.value.attr == "tasks"
                                               for b_ in t_.body for x_ in ast.walk(b_))
               and any((A.dotted(h_.type) or "") in ("KeyError", "LookupError") for h_ in t_.handlers if h_.type is not None)
               for t_ in ast.walk(sx.cx.fn))
    for r in sx.of_kind("return"):
        for a in S.alts(r.value):
            if a[:1] == ("attr",) and a[2] == "expr":
                cs = sx.conds(r.nid)
                guarded = eafp or any(c == member for c in cs) or a[1][:1] == ("call",) or \
                    any(c[:1] == ("cmp",) and c[1] == "is not" and c[3] == ("const", "None") and a[1] in S.alts(c[2]) for c in cs)
                has_expr = any(S.is_call_of(c, ("glob", "hasattr")) and len(c[2]) == 2 and c[2][1] == ("const", repr("expr")) for c in cs) \
                    or any(S.is_call_of(c, ("glob", "isinstance")) for c in cs) \
                    or ("const", "None") in S.alts(r.value)        # getattr(task, "expr", None)
                if not (guarded and has_expr):
                    ok = False
                    facts.append(f"`.expr` returned under {[S.show(c) for c in cs]}")
    col.add(rule, "MutableRef._expr#definition-of-this-location", ok and n >= 1, sx.loc(sx.fn),
            "`_expr` is the expression of the task registered under this very reference (manager.tasks[self]), not of a task that "
            "merely writes it (an element's definition is not the container's)", "; ".join(facts))


def _zero_division(col, rule="C04.R5"):
    rm = model(col)
    want = {"TruedivExpr", "FloordivExpr", "ModExpr"}
    nan = (S.fcall("float", ("const", repr("nan"))), ("attr", ("glob", "math"), "nan"), ("attr", ("glob", "np"), "nan"))
    for c in rm.classes:
        if "_get_value" not in c.methods:
            continue
        sx = rm.sx(c.name, "_get_value")
        fn = sx.fn
        tries = [n for n in A.walk(fn) if isinstance(n, ast.Try)]
        q = f"{c.name}._get_value"
        if c.name in want:
            hs = [h for t in tries for h in t.handlers]
            types_ok = len(hs) == 1 and A.dotted(hs[0].type) == "ZeroDivisionError"
            hret = [v for ev, v, cds, h in rm.returns(c.name, "_get_value") if h]
            ok = len(tries) == 1 and types_ok and len(hret) == 1 and hret[0] in nan and not tries[0].finalbody
            col.add(rule, f"{q}#zero-division-gives-nan", ok, sx.loc(fn),
                    "division/modulo by zero yields NaN: exactly ZeroDivisionError is caught and float('nan') returned",
                    f"handlers {[A.src(h.type) for h in hs]} returning {[S.show(v) for v in hret]}")
        else:
            col.add(rule, f"{q}#no-handler", not tries, c.module.loc(tries[0] if tries else fn),
                    "no other node class catches exceptions while evaluating (values that make Python raise must raise)",
                    f"handlers: {[A.src(h.type) for t in tries for h in t.handlers]}")


def _leaves(col, rule="C04.R6"):
    repo = col.repo
    rm = model(col)
    # _mk_value
    sx = rm.sx("BaseRef", "_mk_value")
    vals = [t for t in sx.sym.params.values() if t[:1] == ("param",)]
    if len(vals) != 1:
        raise AnalysisError("BaseRef._mk_value: expected one parameter")
    vp = vals[0]
    ok, facts = True, []
    seen = set()
    for r in sx.of_kind("return"):
        conds = sx.conds(r.nid)
        for a in S.alts(r.value):
            if a == S.mcall(vp, "_get_value"):
                seen.add("eval")
                if not any(is_ref_test(c, vp) for c in conds) and len(S.alts(r.value)) == 1:
                    ok = False
                    facts.append("evaluates without the reference test")
            elif a == vp:
                seen.add("raw")
                if any(is_ref_test(c, vp) for c in conds):
                    ok = False
                    facts.append("returns a reference unevaluated")
            else:
                ok = False
                facts.append(f"returns {S.show(a)}")
    col.add(rule, "BaseRef._mk_value#evaluate-iff-ref", ok and seen == {"eval", "raw"}, sx.loc(sx.fn),
            "_mk_value returns value._get_value() exactly when value is a BaseRef and the value itself otherwise", "; ".join(facts))
    owner, key = S.sattr("_owner"), S.sattr("_key")
    for cls, kind in (("AttrRef", "attr"), ("ItemRef", "item")):
        sx = rm.sx(cls, "_get_value")
        rets = sx.of_kind("return")
        ok = bool(rets)
        for r in rets:
            v = r.value
            if kind == "attr":
                ok = ok and S.is_call_of(v, ("glob", "getattr")) and len(v[2]) == 2 and unmk(v[2][0]) == owner and unmk(v[2][1]) == key
            else:
                ok = ok and v[:1] == ("sub",) and unmk(v[1]) == owner and unmk(v[2]) == key
        col.add(rule, f"{cls}._get_value#{kind}-access", ok, sx.loc(sx.fn),
                f"{cls}._get_value reads the {kind} `_mk_value(_key)` of `_mk_value(_owner)` (owner and key both evaluated)",
                S.show(rets[0].value) if rets else "")
        sx = rm.sx(cls, "_set_value")
        val = sx.P(0)
        if kind == "attr":
            evs = [ev for ev, m in sx.calls_some(S.fcall("setattr", S.V("o"), S.V("k"), S.V("v")))
                   if unmk(m["o"]) == owner and unmk(m["k"]) == key and m["v"] == val]
            others = [ev for ev, m in sx.calls_some(S.fcall("setattr", S.V("o"), S.V("k"), S.V("v"))) if ev not in evs]
        else:
            st = sx.of_kind("store")
            evs = [e for e in st if e.target[:1] == ("sub",) and unmk(e.target[1]) == owner and unmk(e.target[2]) == key and e.value == val]
            others = [e for e in st if e not in evs]
        ok = bool(evs) and not others and sx.cfg.must_pass(sx.cfg.ENTRY, sx.cfg.EXIT, [e.nid for e in evs])
        col.add(rule, f"{cls}._set_value#{kind}-access", ok, sx.loc(sx.fn),
                f"{cls}._set_value writes the {kind} `_mk_value(_key)` of `_mk_value(_owner)` (owner and key both evaluated) on every path",
                f"{len(evs)} matching writes, {len(others)} other")
    rets = rm.returns("Ref", "_get_value")
    col.add(rule, "Ref._get_value#container", bool(rets) and all(unmk(v) == owner for _, v, _, _ in rets), rm.sx("Ref", "_get_value").loc(rm.sx("Ref", "_get_value").fn),
            "a container ref evaluates to its container", S.show(rets[0][1]) if rets else "")
    rets = rm.returns("LiteralExpr", "_get_value")
    col.add(rule, "LiteralExpr._get_value#literal", bool(rets) and all(v == S.sattr("_arg") for _, v, _, _ in rets),
            rm.sx("LiteralExpr", "_get_value").loc(rm.sx("LiteralExpr", "_get_value").fn), "a literal evaluates to itself", "")
    navigation_rules(col, rule)


def navigation_rules(col, rule="C04.R6"):
    """ref[key] / ref.name build ItemRef/AttrRef(self, key, manager) with the key exactly as given, for every key
    except the reserved protocol names (special_methods)"""
    rm = model(col)
    for meth, cls_, mod in (("__getitem__", "ItemRef", "BaseRef"), ("__getattr__", "AttrRef", "BaseRef"), ("__getattr__", "ItemRef", "ObjectAttrRef")):
        sx = rm.sx(mod, meth)
        kp = sx.P(0)
        rets = sx.of_kind("return")
        ok = bool(rets) and all(r.value == S.fcall(cls_, S.SELF, kp, S.sattr("_manager")) for r in rets)
        col.add(rule, f"{mod}.{meth}#navigation", ok, sx.loc(sx.fn), f"{mod}.{meth} builds {cls_}(self, key, self._manager)",
                S.show(rets[0].value) if rets else "")
        # which keys are refused: nothing but the reserved names
        reserved = ("cmp", "not in", kp, S.V("_", lambda t: t[:1] == ("glob",)))
        extra = []
        for r in rets:
            for c in sx.conds(r.nid):
                if S.match(c, reserved) is None and kp in S.subterms(c):
                    extra.append(S.show(c))
        for r in sx.of_kind("raise"):
            cs = sx.conds(r.nid)
            if not any(S.match(S.neg(c), reserved) is not None for c in cs) and any(kp in S.subterms(c) for c in cs):
                extra.append("raises under " + " and ".join(S.show(c) for c in cs))
        col.add(rule, f"{mod}.{meth}#every-key-navigable", not extra, sx.loc(sx.fn),
                f"{mod}.{meth} refuses no key/name other than the reserved protocol names", "; ".join(extra))


def _calls(col, rule="C04.R7"):
    rm = model(col)
    sx = rm.sx("CallRef", "_get_value")
    rets = _main_returns(rm, "CallRef", "_get_value")
    if not rets:
        raise AnalysisError("CallRef._get_value: no return")
    for ev, v, c in rets:
        okf = oka = okk = False
        if S.is_call_of(v):
            okf = unmk(v[1]) == S.sattr("_func")
            if len(v[2]) == 1 and v[2][0][:1] == ("uop",) and v[2][0][1] == "*":
                g = v[2][0][2]
                if S.is_call_of(g) and g[1] in (("glob", "tuple"), ("glob", "list")) and len(g[2]) == 1:
                    g = g[2][0]
                oka = g[:1] == ("acc",) and len(g[2]) == 1 and g[2][0][0] == "one" and not g[2][0][1] and \
                    unmk(g[2][0][2]) == ("elem", S.sattr("_args"))
            kw = dict(v[3]).get("**")
            if kw is not None and kw[:1] == ("acc",) and kw[1] == "dict" and len(kw[2]) == 1 and kw[2][0][0] == "kv" and not kw[2][0][1]:
                el = ("elem", S.sattr("_kwargs"))
                okk = kw[2][0][2] == ("item", el, 0) and unmk(kw[2][0][3]) == ("item", el, 1)
        col.add(rule, "CallRef._get_value#function-evaluated", okf, sx.loc(ev), "the called function is evaluated through _mk_value", S.show(v)[:120])
        col.add(rule, "CallRef._get_value#positional-evaluated", oka, sx.loc(ev), "every positional argument is evaluated, in order", S.show(v)[:120])
        col.add(rule, "CallRef._get_value#keywords-evaluated", okk, sx.loc(ev), "every keyword argument is evaluated under its own name", S.show(v)[:120])
    sx = rm.sx("BaseRef", "__call__")
    ps = sorted((t for t in sx.sym.params.values() if t[:1] == ("param",)), key=lambda t: t[1])
    rets = sx.of_kind("return")
    ok = len(ps) == 2 and ps[0][2].startswith("*") and ps[1][2].startswith("**") and bool(rets) and \
        all(r.value == S.fcall("CallRef", S.SELF, ps[0], ps[1]) for r in rets)
    col.add(rule, "BaseRef.__call__#builds-callref", ok, sx.loc(sx.fn), "calling a ref builds CallRef(self, args, kwargs)",
            S.show(rets[0].value) if rets else "")
    fs = rm.field_stores("CallRef")
    k_sx = rm.cinits("CallRef")[0][1]
    p = [t for t in sorted((t for t in k_sx.sym.params.values() if t[:1] == ("param",)), key=lambda t: t[1])]
    allowed_kw = (S.fcall("tuple", S.mcall(p[2], "items")), S.fcall("tuple", p[2])) if len(p) == 3 else ()
    ok = len(p) == 3 and all(v == p[0] for _, v, _, _, _ in fs.get("_func", [])) and all(v == p[1] for _, v, _, _, _ in fs.get("_args", [])) \
        and bool(fs.get("_kwargs")) and all(a in allowed_kw for _, v, _, _, _ in fs["_kwargs"] for a in S.instances(v)) \
        and bool(fs.get("_func")) and bool(fs.get("_args"))
    if ok and len(p) == 3:
        isdict = S.fcall("isinstance", p[2], ("glob", "dict"))
        for _, v, cd, _sx, _ev in fs["_kwargs"]:
            for a in S.instances(v):
                if a == S.fcall("tuple", S.mcall(p[2], "items")) and isdict not in cd and len(fs["_kwargs"]) > 1:
                    ok = False
                if a == S.fcall("tuple", p[2]) and ("uop", "not", isdict) not in cd and len(fs["_kwargs"]) > 1:
                    ok = False
        written = k_sx.cfg.must_pass(k_sx.cfg.ENTRY, k_sx.cfg.EXIT, [e.nid for *_x, e in fs["_kwargs"]])
        ok = ok and written
    col.add(rule, "CallRef.__cinit__#fields", ok, k_sx.loc(k_sx.fn),
            "CallRef(func, args, kwargs) stores them as _func, _args, _kwargs (keyword arguments as a tuple of (name, value) pairs, in order)",
            str({f: [S.show(v) for _, v, _, _, _ in l] for f, l in fs.items() if f != "_hash"}))


def _no_build_time_algebra(col, rule="C04.R1"):
    """the operator dunders are BaseRef's alone: a node class that overrides one (`NegExpr.__neg__` returning the inner operand, a `PowExpr.__pow__`
    folding towers) rewrites the expression when it is built -- identities of real arithmetic that Python's operators do not obey for every
    operand type (-(-True) is 1, not True; (x**2)**0.5 is |x|)"""
    rm = model(col)
    ops = set(PD.UNARY)
    for fwd, (_op, _tok, refl, _ip) in PD.BINARY.items():
        ops.add(fwd)
        if refl:
            ops.add(refl)
    ops |= set(PD.BUILTINS)
    base = rm.cls("BaseRef")
    ops = {o for o in ops if o in base.methods}
    n = 0
    for c in rm.classes:
        if c.name == "BaseRef":
            continue
        over = sorted(o for o in ops if o in c.methods and c.methods[o] is not base.methods.get(o))
        n += 1
        col.add(rule, f"{c.name}#inherits-operator-dunders", not over, c.module.loc(c.methods[over[0]]) if over else c.module.loc(c.node),
                "expression classes do not override BaseRef's operator dunders (no algebraic rewriting at construction)", str(over))
    col.count("node_classes_scanned", n)


def check(col: Collector):
    with col.rule():
        _no_build_time_algebra(col)
    with col.rule():
        _binary(col)
    with col.rule():
        _unary(col)
    with col.rule():
        _builtins(col)
    with col.rule():
        inplace_rules(col)
    with col.rule():
        _zero_division(col)
    with col.rule():
        _leaves(col)
    with col.rule():
        _calls(col)
    # a C-typed local or parameter in a node's evaluation coerces the Python value (a shift count becomes a 32-bit int, a numpy scalar a
    # plain int): the deferred result then differs from Python's, in the compiled build
    from . import c20
    from .common import shared
    with col.rule():
        shared(col, "C04.R8", [c20._cinit_rules], select=lambda o: "no-enforced-parameter-types" in o.construct,
               why="evaluation must hand Python's own objects to Python's own operators")
    with col.rule():
        shared(col, "C04.R8", [c20._no_semantic_directives],
               why="C division neither raises ZeroDivisionError nor rounds like Python's: the documented NaN convention and Python's results are lost")
    # round 7: the zero-division deviation covers the division only
    from . import c18
    from .common import shared, construct_tag
    with col.rule():
        shared(col, "C04.R5", [c18._no_swallowing], select=lambda o: construct_tag(o) == "documented-zero-division-guard",
               why="operands evaluated inside the guarded block turn a ZeroDivisionError raised by an operand (0.0 ** -1, divmod(x, 0)) "
                   "into NaN where Python raises")
