"""C04 -- deferred expressions evaluate to what Python computes on the operand values."""
from __future__ import annotations

import ast

from .. import astutil as A
from .. import pydata as PD
from ..core import AnalysisError, Collector
from ..refsmodel import RefClass, ref_classes, _local_alias, resolve_local, is_mk_value
from .common import FnCtx, fnctx, is_method_call, is_self_call

PROP = "C04"
FLOORS = {"C04.R1": 32, "C04.R2": 3, "C04.R3": 8, "C04.R4": 13, "C04.R5": 22, "C04.R6": 8, "C04.R7": 3}
META = {
    "explanation": "Structural induction: for every operator dunder of BaseRef (Python data-model table) the node class built, the "
                   "operand order, the operator applied by that class's _get_value to the _mk_value of its operand fields and the "
                   "printed operator token are the ones Python prescribes; likewise unary operators, the builtin dunders, the in-place "
                   "table of MutableRef, the leaves (item/attribute access, calls) and _mk_value itself; the only handlers in any "
                   "_get_value are the three documented ZeroDivisionError->NaN guards.",
    "decides": "the homomorphism node-by-node (operator identity, operand order, evaluation of every operand slot), exhaustively over "
               "the operator table",
    "not_decided": "per-type numeric semantics (they are Python's own by the induction); numpy left-operand dispatch (excluded by the property)",
    "assumptions": ["Python's data model (xsa/pydata.py)"],
}


def _ret_expr(fn):
    body = A.strip_docstring(fn.body)
    if len(body) == 1 and isinstance(body[0], ast.Return):
        return body[0].value
    return None


def _get_value_op(rc: RefClass):
    """('bin', opclass, left_field, right_field) / ('un', opclass, field) of rc._get_value, or None"""
    r = rc.method("_get_value")
    if r is None:
        return None
    fn = r[1]
    alias = _local_alias(fn)
    rets = [n for n in A.walk(fn) if isinstance(n, ast.Return) and n.value is not None]

    def field_of(e):
        e = resolve_local(e, alias)
        if is_mk_value(e):
            return A.self_attr(resolve_local(e.args[0], alias))
        return None
    # the operator return is the one not inside an except handler
    in_handler = set()
    for t in (n for n in A.walk(fn) if isinstance(n, ast.Try)):
        for h in t.handlers:
            for n in A.walk(h):
                in_handler.add(id(n))
    main = [r_ for r_ in rets if id(r_) not in in_handler]
    if len(main) != 1:
        return None
    v = resolve_local(main[0].value, alias)
    if isinstance(v, ast.BinOp):
        return ("bin", type(v.op), field_of(v.left), field_of(v.right))
    if isinstance(v, ast.Compare) and len(v.ops) == 1:
        return ("bin", type(v.ops[0]), field_of(v.left), field_of(v.comparators[0]))
    if isinstance(v, ast.UnaryOp):
        return ("un", type(v.op), field_of(v.operand))
    return None


def _binary(col, rule="C04.R1"):
    repo = col.repo
    base = repo.cls("BaseRef")
    classes = {rc.name: rc for rc in ref_classes(repo)}
    tokens = {}
    table = []
    for fwd, (op, tok, refl, _) in PD.BINARY.items():
        table.append((fwd, op, tok, "fwd"))
        table.append((refl, op, tok, "refl"))
    for nm, (op, tok) in PD.COMPARE.items():
        table.append((nm, op, tok, "fwd"))
    for nm, (op, tok) in PD.EQUALITY_HELPERS.items():
        table.append((nm, op, tok, "fwd"))
    for dunder, op, tok, mode in table:
        q = f"BaseRef.{dunder}"
        if dunder not in base.methods:
            col.fail(rule, f"{q}#defined", base.module.loc(base.node),
                     f"BaseRef defines {dunder} (otherwise `{tok}` with a ref on that side raises or falls back)", "missing")
            continue
        fn = base.methods[dunder]
        ps = A.params(fn)
        v = _ret_expr(fn)
        if not (isinstance(v, ast.Call) and isinstance(v.func, ast.Name) and len(ps) == 2):
            col.fail(rule, f"{q}#builds-node", base.module.loc(fn), f"{dunder} returns a node class applied to its two operands", A.src(v))
            continue
        k = v.func.id
        want = ["self", ps[1]] if mode == "fwd" else [ps[1], "self"]
        got = [A.dotted(a) for a in v.args]
        col.add(rule, f"{q}#operand-order", got == want and not v.keywords, base.module.loc(fn),
                f"{dunder} builds its node with the operands in Python's order ({'self OP other' if mode == 'fwd' else 'other OP self'})",
                A.src(v))
        rc = classes.get(k)
        if rc is None:
            col.fail(rule, f"{q}#node-class", base.module.loc(fn), "the node class exists", k)
            continue
        gv = _get_value_op(rc)
        ok = gv is not None and gv[0] == "bin" and gv[1] is op and gv[2] == "_lhs" and gv[3] == "_rhs"
        col.add(rule, f"{q}#operator:{k}", ok, rc.c.module.loc(rc.method("_get_value")[1]),
                f"the node built by {dunder} evaluates `_mk_value(_lhs) {tok} _mk_value(_rhs)`",
                f"{k}._get_value computes {gv}")
        ts = repo.class_const(rc.c, "_op_str")
        col.add(rule, f"{q}#token:{k}", A.const(ts) == tok, rc.c.module.loc(rc.c.node),
                f"{k} prints the operator as `{tok}`", f"_op_str = {A.src(ts)}")
        tokens.setdefault(k, tok)
        # lhs/rhs fields come from the constructor arguments in order
        pf = rc.param_field()
        cin = [fn2 for k2, fn2 in rc.cinits() if len(A.params(fn2)) == 3]
        okc = bool(cin) and [rc.field_of_param(p) for p in A.params(cin[0])[1:]] == ["_lhs", "_rhs"]
        col.add(rule, f"{q}#ctor-fields:{k}", okc, rc.c.module.loc(rc.c.node),
                f"{k}(a, b) stores a as _lhs and b as _rhs", str(pf))
    # one node class per operator, tokens distinct over BinOpExpr subclasses
    seen = {}
    for rc in classes.values():
        if repo.is_subclass(rc.c, "BinOpExpr") and rc.name != "BinOpExpr":
            t = A.const(repo.class_const(rc.c, "_op_str"))
            seen.setdefault(t, []).append(rc.name)
    dup = {t: ks for t, ks in seen.items() if len(ks) > 1}
    col.add(rule, "BinOpExpr#distinct-tokens", not dup, base.module.rel, "binary node classes print pairwise distinct operator tokens", str(dup))
    for nm in PD.NON_PROTOCOL:
        if nm in base.methods:
            v = _ret_expr(base.methods[nm])
            if isinstance(v, ast.Call) and len(v.args) != 2:
                col.add(rule, f"BaseRef.{nm}#non-protocol", False, base.module.loc(base.methods[nm]),
                        f"{nm} is not a Python protocol name (never called by the interpreter); cross-reference only", A.src(v), note=True)


def _unary(col, rule="C04.R2"):
    repo = col.repo
    base = repo.cls("BaseRef")
    classes = {rc.name: rc for rc in ref_classes(repo)}
    for dunder, (op, tok) in PD.UNARY.items():
        q = f"BaseRef.{dunder}"
        if dunder not in base.methods:
            col.fail(rule, f"{q}#defined", base.module.loc(base.node), f"BaseRef defines {dunder}", "missing")
            continue
        fn = base.methods[dunder]
        v = _ret_expr(fn)
        ok = isinstance(v, ast.Call) and isinstance(v.func, ast.Name) and [A.dotted(a) for a in v.args] == ["self"]
        col.add(rule, f"{q}#builds-node", ok, base.module.loc(fn), f"{dunder} builds a unary node over self", A.src(v))
        if not ok:
            continue
        rc = classes.get(v.func.id)
        gv = _get_value_op(rc) if rc else None
        col.add(rule, f"{q}#operator:{v.func.id}", gv is not None and gv[0] == "un" and gv[1] is op and gv[2] == "_arg",
                base.module.loc(fn), f"the node evaluates `{tok}_mk_value(_arg)`", str(gv))
        ts = repo.class_const(rc.c, "_op_str") if rc else None
        col.add(rule, f"{q}#token:{v.func.id}", A.const(ts) == tok, base.module.loc(fn), f"prints `{tok}`", A.src(ts))


def _resolve_callable(m, e) -> str:
    d = A.dotted(e)
    return d or A.src(e)


def _builtins(col, rule="C04.R3"):
    repo = col.repo
    base = repo.cls("BaseRef")
    for dunder, (target, extra, defaults) in PD.BUILTINS.items():
        q = f"BaseRef.{dunder}"
        if dunder not in base.methods:
            col.fail(rule, f"{q}#defined", base.module.loc(base.node), f"BaseRef defines {dunder}", "missing")
            continue
        fn = base.methods[dunder]
        ps = A.params(fn)[1:]
        dfl = A.param_defaults(fn)
        rets = [n for n in A.walk(fn) if isinstance(n, ast.Return)]
        calls_ok = bool(rets)
        facts = []
        for r in rets:
            v = r.value
            if not (isinstance(v, ast.Call) and A.call_name(v) == "BuiltinRef" and len(v.args) >= 2 and A.dotted(v.args[0]) == "self"):
                calls_ok = False
                facts.append(A.src(v))
                continue
            op = _resolve_callable(base.module, v.args[1])
            if op != target:
                calls_ok = False
                facts.append(f"defers to {op}, expected {target}")
            passed = []
            if len(v.args) >= 3:
                if isinstance(v.args[2], ast.Tuple):
                    passed = [A.dotted(e) for e in v.args[2].elts]
                else:
                    calls_ok = False
                    facts.append(f"params {A.src(v.args[2])}")
            if passed != ps and not (len(rets) > 1 and passed == []):
                calls_ok = False
                facts.append(f"forwards {passed}, dunder receives {ps}")
        col.add(rule, f"{q}#defers-to-builtin", calls_ok, base.module.loc(fn),
                f"{dunder} builds BuiltinRef(self, {target}, <exactly the arguments Python passes>)", "; ".join(facts))
        # defaults of the dunder's own parameters must be the builtin's defaults
        okd = len(ps) == len(extra)
        for p, name in zip(ps, extra):
            if name in defaults:
                okd = okd and p in dfl and A.const(dfl[p]) == defaults[name] and (defaults[name] is not None or A.is_none(dfl[p]))
            else:
                okd = okd and p not in dfl
        col.add(rule, f"{q}#parameter-defaults", okd, base.module.loc(fn),
                f"{dunder}'s extra parameters and defaults are those of {target} (round's ndigits defaults to None)",
                f"params {ps} defaults { {k: A.src(v) for k, v in dfl.items()} }")
        # any test on an extra parameter is an `is None` test (0 is a legitimate value)
        bad = []
        for n in A.walk(fn):
            tests = []
            if isinstance(n, (ast.If, ast.IfExp, ast.While)):
                tests.append(n.test)
            if isinstance(n, ast.BoolOp):
                tests += n.values
            for t in tests:
                t2 = t.operand if isinstance(t, ast.UnaryOp) and isinstance(t.op, ast.Not) else t
                if isinstance(t2, ast.Name) and t2.id in ps:
                    bad.append(A.src(t))
        col.add(rule, f"{q}#no-truthiness-test-on-argument", not bad, base.module.loc(fn),
                "an extra argument is never tested by truthiness (0 / False are legitimate values distinct from 'not given')", str(bad))
    # BuiltinRef._get_value applies _op to the evaluated arg and every evaluated param
    cx = fnctx(repo, "BuiltinRef", "_get_value")
    alias = _local_alias(cx.fn)
    rets = [n for n in A.walk(cx.fn) if isinstance(n, ast.Return)]
    ok = len(rets) == 1
    facts = ""
    if ok:
        v = resolve_local(rets[0].value, alias)
        ok = isinstance(v, ast.Call) and A.dotted(v.func) == "self._op" and len(v.args) == 2 and not v.keywords
        if ok:
            a0 = resolve_local(v.args[0], alias)
            ok = is_mk_value(a0) and A.self_attr(resolve_local(a0.args[0], alias)) == "_arg"
            st = v.args[1]
            ok = ok and isinstance(st, ast.Starred)
            if ok:
                g = resolve_local(st.value, alias)
                ok = isinstance(g, (ast.GeneratorExp, ast.ListComp)) and len(g.generators) == 1 and not g.generators[0].ifs \
                    and A.self_attr(g.generators[0].iter) == "_params" and is_mk_value(g.elt) \
                    and [A.dotted(g.elt.args[0])] == A.target_names(g.generators[0].target)
        facts = A.src(v)
    col.add(rule, "BuiltinRef._get_value#applies-op", ok, cx.loc(cx.fn),
            "BuiltinRef evaluates to _op(_mk_value(_arg), *(_mk_value(p) for p in _params)) -- every parameter, in order", facts)
    rc = [r for r in ref_classes(repo) if r.name == "BuiltinRef"][0]
    col.add(rule, "BuiltinRef.__cinit__#fields", [rc.field_of_param(p) for p in A.params(rc.cinits()[0][1])[1:]] == ["_arg", "_op", "_params"],
            rc.c.module.loc(rc.c.node), "BuiltinRef(arg, op, params) stores them as _arg, _op, _params", str(rc.param_field()))
    dfl = A.param_defaults(rc.cinits()[0][1])
    col.add(rule, "BuiltinRef.__cinit__#params-default", "params" in dfl and A.src(dfl["params"]) == "()", rc.c.module.loc(rc.c.node),
            "BuiltinRef's params default to the empty tuple (no extra argument is passed to the builtin)", A.src(dfl.get("params")))


def _inplace(col, rule="C04.R4"):
    repo = col.repo
    mr = repo.cls("MutableRef")
    for fwd, (op, tok, _, ip) in PD.BINARY.items():
        q = f"MutableRef.{ip}"
        if ip not in mr.methods:
            col.fail(rule, f"{q}#defined", mr.module.loc(mr.node),
                     f"MutableRef defines {ip} (otherwise `ref {tok}= x` falls back to {fwd} and registers a self-referential expression)",
                     "missing")
            continue
        cx = FnCtx(mr.module, mr, mr.methods[ip])
        other = A.params(cx.fn)[1]
        rets = [n for n in cx.cfg.nodes.values() if n.kind == "stmt" and isinstance(n.ast, ast.Return)]
        kinds = {}
        facts = []
        for r in rets:
            v = r.ast.value
            if isinstance(v, ast.BinOp) and type(v.op) is op and A.dotted(v.right) == other:
                left = cx.resolve(v.left, r.id)
                gs = [g for g in cx.cfg.guards(r.id)]
                if A.self_attr(left) == "_expr":
                    # taken when the expression exists
                    g_ok = len(gs) == 1 and ((gs[0].kind == "T" and _is_expr_present_test(cx, gs[0], r.id)) or
                                             (gs[0].kind == "F" and _is_expr_absent_test(cx, gs[0], r.id)))
                    kinds["expr"] = g_ok
                elif isinstance(left, ast.Call) and is_self_call(left, "_get_value") and not left.args:
                    g_ok = len(gs) == 1 and ((gs[0].kind == "F" and _is_expr_present_test(cx, gs[0], r.id)) or
                                             (gs[0].kind == "T" and _is_expr_absent_test(cx, gs[0], r.id)))
                    kinds["value"] = g_ok
                else:
                    facts.append(f"left operand {A.src(left)}")
            else:
                facts.append(f"returns {A.src(v)}")
        ok = kinds.get("expr") is True and kinds.get("value") is True and not facts and len(rets) == 2
        col.add(rule, f"{q}#old-expr-or-old-value-{tok}-other", ok, cx.loc(cx.fn),
                f"{ip} returns (current expression {tok} other) when the location has an expression, else (current value {tok} other)",
                "; ".join(facts) or str(kinds))
        col.add(rule, f"{q}#every-path-returns", cx.cfg.must_pass(cx.cfg.ENTRY, cx.cfg.EXIT, [r.id for r in rets]), cx.loc(cx.fn),
                "every path returns one of the two forms", "")


def _is_expr_present_test(cx, g, at):
    t = g.ast
    e = cx.resolve(t, g.of) if isinstance(t, ast.Name) else t
    if A.self_attr(e) == "_expr":
        return True
    p = A.compare_parts(t)
    if p and isinstance(p[1], ast.IsNot) and A.is_none(p[2]):
        e = cx.resolve(p[0], g.of)
        return A.self_attr(e) == "_expr"
    return False


def _is_expr_absent_test(cx, g, at):
    t = g.ast
    p = A.compare_parts(t)
    if p and isinstance(p[1], ast.Is) and A.is_none(p[2]):
        return A.self_attr(cx.resolve(p[0], g.of)) == "_expr"
    if isinstance(t, ast.UnaryOp) and isinstance(t.op, ast.Not):
        return A.self_attr(cx.resolve(t.operand, g.of)) == "_expr"
    return False


def _zero_division(col, rule="C04.R5"):
    repo = col.repo
    want = {"TruedivExpr", "FloordivExpr", "ModExpr"}
    for rc in ref_classes(repo):
        if "_get_value" not in rc.c.methods:
            continue
        fn = rc.c.methods["_get_value"]
        tries = [n for n in A.walk(fn) if isinstance(n, ast.Try)]
        q = f"{rc.name}._get_value"
        if rc.name in want:
            ok = len(tries) == 1 and len(tries[0].handlers) == 1 and A.dotted(tries[0].handlers[0].type) == "ZeroDivisionError" \
                and len(tries[0].handlers[0].body) == 1 and isinstance(tries[0].handlers[0].body[0], ast.Return) \
                and A.src(tries[0].handlers[0].body[0].value) in ("float('nan')", "math.nan") and not tries[0].finalbody and not tries[0].orelse
            col.add(rule, f"{q}#zero-division-gives-nan", ok, rc.c.module.loc(fn),
                    "division/modulo by zero yields NaN: exactly ZeroDivisionError is caught and float('nan') returned", "")
        else:
            col.add(rule, f"{q}#no-handler", not tries, rc.c.module.loc(tries[0] if tries else fn),
                    "no other node class catches exceptions while evaluating (values that make Python raise must raise)",
                    f"handlers: {[A.src(h.type) for t in tries for h in t.handlers]}")


def _leaves(col, rule="C04.R6"):
    repo = col.repo
    # _mk_value
    cx = fnctx(repo, "BaseRef", "_mk_value")
    vp = A.params(cx.fn)[0]
    rets = [n for n in cx.cfg.nodes.values() if n.kind == "stmt" and isinstance(n.ast, ast.Return)]
    ok = len(rets) == 2
    for r in rets:
        v = r.ast.value
        gs = cx.cfg.guards(r.id)
        isref = lambda t: isinstance(t, ast.Call) and A.call_name(t) in ("isinstance",) and len(t.args) == 2 and A.dotted(t.args[0]) == vp \
            and A.dotted(t.args[1]) == "BaseRef"
        if isinstance(v, ast.Call) and is_method_call(v, "_get_value", vp) and not v.args:
            ok = ok and len(gs) == 1 and gs[0].kind == "T" and isref(gs[0].ast)
        elif A.dotted(v) == vp:
            ok = ok and len(gs) == 1 and gs[0].kind == "F" and isref(gs[0].ast)
        else:
            ok = False
    col.add(rule, "BaseRef._mk_value#evaluate-iff-ref", ok, cx.loc(cx.fn),
            "_mk_value returns value._get_value() exactly when value is a BaseRef and the value itself otherwise", "")
    for cls, kind in (("AttrRef", "attr"), ("ItemRef", "item")):
        for meth in ("_get_value", "_set_value"):
            cx = fnctx(repo, cls, meth)
            alias = _local_alias(cx.fn)

            def fld(e):
                e = resolve_local(e, alias)
                return A.self_attr(resolve_local(e.args[0], alias)) if is_mk_value(e) else None
            ok = False
            facts = ""
            if meth == "_get_value":
                rets = [n for n in A.walk(cx.fn) if isinstance(n, ast.Return)]
                if len(rets) == 1:
                    v = rets[0].value
                    facts = A.src(v)
                    if kind == "attr":
                        ok = isinstance(v, ast.Call) and A.call_name(v) == "getattr" and len(v.args) == 2 and \
                            [fld(a) for a in v.args] == ["_owner", "_key"]
                    else:
                        ok = isinstance(v, ast.Subscript) and fld(v.value) == "_owner" and fld(v.slice) == "_key"
            else:
                vp = A.params(cx.fn)[1]
                stmts = [s for s in A.strip_docstring(cx.fn.body) if not isinstance(s, ast.Assign) or not isinstance(s.targets[0], ast.Name)]
                if len(stmts) == 1:
                    s = stmts[0]
                    facts = A.src(s)
                    if kind == "attr":
                        ok = isinstance(s, ast.Expr) and isinstance(s.value, ast.Call) and A.call_name(s.value) == "setattr" and \
                            len(s.value.args) == 3 and [fld(a) for a in s.value.args[:2]] == ["_owner", "_key"] and A.dotted(s.value.args[2]) == vp
                    else:
                        ok = isinstance(s, ast.Assign) and isinstance(s.targets[0], ast.Subscript) and fld(s.targets[0].value) == "_owner" \
                            and fld(s.targets[0].slice) == "_key" and A.dotted(s.value) == vp
            col.add(rule, f"{cls}.{meth}#{kind}-access", ok, cx.loc(cx.fn),
                    f"{cls}.{meth} {'reads' if meth == '_get_value' else 'writes'} the {kind} `_mk_value(_key)` of `_mk_value(_owner)` "
                    "(owner and key both evaluated)", facts)
    cx = fnctx(repo, "Ref", "_get_value")
    v = _ret_expr(cx.fn)
    col.add(rule, "Ref._get_value#container", is_mk_value(v) and A.self_attr(v.args[0]) == "_owner", cx.loc(cx.fn),
            "a container ref evaluates to its container", A.src(v))
    cx = fnctx(repo, "LiteralExpr", "_get_value")
    v = _ret_expr(cx.fn)
    col.add(rule, "LiteralExpr._get_value#literal", A.self_attr(v) == "_arg", cx.loc(cx.fn), "a literal evaluates to itself", A.src(v))
    # navigation
    base = repo.cls("BaseRef")
    for meth, cls_, mod in (("__getitem__", "ItemRef", "BaseRef"), ("__getattr__", "AttrRef", "BaseRef"), ("__getattr__", "ItemRef", "ObjectAttrRef")):
        cx = fnctx(repo, mod, meth)
        kp = A.params(cx.fn)[1]
        rets = [n.value for n in A.walk(cx.fn) if isinstance(n, ast.Return)]
        ok = len(rets) == 1 and isinstance(rets[0], ast.Call) and A.call_name(rets[0]) == cls_ and \
            [A.dotted(a) for a in rets[0].args] == ["self", kp, "self._manager"]
        col.add(rule, f"{mod}.{meth}#navigation", ok, cx.loc(cx.fn), f"{mod}.{meth} builds {cls_}(self, key, self._manager)",
                A.src(rets[0]) if rets else "")


def _calls(col, rule="C04.R7"):
    repo = col.repo
    cx = fnctx(repo, "CallRef", "_get_value")
    alias = _local_alias(cx.fn)
    rets = [n for n in A.walk(cx.fn) if isinstance(n, ast.Return)]
    ok = len(rets) == 1
    facts = ""
    if ok:
        v = resolve_local(rets[0].value, alias)
        facts = A.src(v)
        ok = isinstance(v, ast.Call) and len(v.args) == 1 and isinstance(v.args[0], ast.Starred) and len(v.keywords) == 1 and v.keywords[0].arg is None
        if ok:
            f = resolve_local(v.func, alias)
            okf = is_mk_value(f) and A.self_attr(f.args[0]) == "_func"
            a = resolve_local(v.args[0].value, alias)
            oka = isinstance(a, (ast.ListComp, ast.GeneratorExp)) and len(a.generators) == 1 and not a.generators[0].ifs and \
                A.self_attr(a.generators[0].iter) == "_args" and is_mk_value(a.elt) and [A.dotted(a.elt.args[0])] == A.target_names(a.generators[0].target)
            k = resolve_local(v.keywords[0].value, alias)
            okk = isinstance(k, ast.DictComp) and len(k.generators) == 1 and not k.generators[0].ifs and A.self_attr(k.generators[0].iter) == "_kwargs" \
                and len(A.target_names(k.generators[0].target)) == 2 and A.dotted(k.key) == A.target_names(k.generators[0].target)[0] \
                and is_mk_value(k.value) and A.dotted(k.value.args[0]) == A.target_names(k.generators[0].target)[1]
            col.add(rule, "CallRef._get_value#function-evaluated", okf, cx.loc(cx.fn), "the called function is evaluated through _mk_value", A.src(f))
            col.add(rule, "CallRef._get_value#positional-evaluated", oka, cx.loc(cx.fn), "every positional argument is evaluated, in order", A.src(a))
            col.add(rule, "CallRef._get_value#keywords-evaluated", okk, cx.loc(cx.fn), "every keyword argument is evaluated under its own name", A.src(k))
    col.add(rule, "CallRef._get_value#applies", ok, cx.loc(cx.fn), "CallRef evaluates to func(*args, **kwargs)", facts)
    cx = fnctx(repo, "BaseRef", "__call__")
    v = _ret_expr(cx.fn)
    a = cx.fn.args
    ok = isinstance(v, ast.Call) and A.call_name(v) == "CallRef" and a.vararg and a.kwarg and \
        [A.dotted(x) for x in v.args] == ["self", a.vararg.arg, a.kwarg.arg]
    col.add(rule, "BaseRef.__call__#builds-callref", bool(ok), cx.loc(cx.fn), "calling a ref builds CallRef(self, args, kwargs)", A.src(v))
    # CallRef ctor: kwargs normalised to items in order
    rc = [r for r in ref_classes(repo) if r.name == "CallRef"][0]
    col.add(rule, "CallRef.__cinit__#fields", [rc.field_of_param(p) for p in A.params(rc.cinits()[0][1])[1:]] == ["_func", "_args", "_kwargs"],
            rc.c.module.loc(rc.c.node), "CallRef(func, args, kwargs) stores them as _func, _args, _kwargs", str(rc.param_field()))


def check(col: Collector):
    _binary(col)
    _unary(col)
    _builtins(col)
    _inplace(col)
    _zero_division(col)
    _leaves(col)
    _calls(col)
