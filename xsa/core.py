"""Program model of /repo/xdeps, obligations, known findings, evidence, runner."""
from __future__ import annotations

import ast
import hashlib
import json
import os
import sys
import time
import traceback
from dataclasses import dataclass, field
from pathlib import Path
from typing import Callable, Dict, List, Optional

from . import astutil as A

VERIF = Path(__file__).resolve().parent.parent
DEFAULT_REPO = Path(os.environ.get("XSA_REPO", "/repo"))


class AnalysisError(Exception):
    """The analysis cannot decide (vanished anchor, unrecognised shape, floor)."""


# --------------------------------------------------------------------------- model


class ClassInfo:
    def __init__(self, module: "Module", node: ast.ClassDef):
        self.module = module
        self.node = node
        self.name = node.name
        self.base_names = [A.dotted(b) or A.src(b) for b in node.bases]
        self.methods: Dict[str, ast.FunctionDef] = {}
        self.properties: set = set()
        self.setters: Dict[str, ast.FunctionDef] = {}
        self.consts: Dict[str, ast.expr] = {}
        self.annotations: Dict[str, ast.expr] = {}
        self.decorators = [A.dotted(d) or A.src(d) for d in node.decorator_list]
        self.aliases: Dict[str, str] = {}      # name = other_name  (e.g. __setattr__ = __setitem__)
        self.imports: Dict[str, str] = {}      # names imported in the class body
        for st in node.body:
            if isinstance(st, (ast.FunctionDef, ast.AsyncFunctionDef)):
                decs = [A.dotted(d) or A.src(d) for d in st.decorator_list]
                if any(d.endswith(".setter") for d in decs):
                    self.setters[st.name] = st
                    continue
                if "property" in decs:
                    self.properties.add(st.name)
                self.methods[st.name] = st
            elif isinstance(st, ast.Assign):
                for t in st.targets:
                    if isinstance(t, ast.Name):
                        self.consts[t.id] = st.value
                        if isinstance(st.value, ast.Name):
                            self.aliases[t.id] = st.value.id
            elif isinstance(st, ast.AnnAssign) and isinstance(st.target, ast.Name):
                self.annotations[st.target.id] = st.annotation
                if st.value is not None:
                    self.consts[st.target.id] = st.value
            elif isinstance(st, ast.ImportFrom):
                for al in st.names:
                    self.imports[al.asname or al.name] = f"{st.module}.{al.name}"
        for k, v in self.aliases.items():
            if v in self.methods and k not in self.methods:
                self.methods[k] = self.methods[v]

    @property
    def qual(self) -> str:
        return f"{self.module.name}.{self.name}"

    def __repr__(self):
        return f"<class {self.qual}>"


def _is_private(name: str) -> bool:
    return name.startswith("_") and not (name.startswith("__") and name.endswith("__"))


def _fp_of(fn, siblings) -> dict:
    calls = set()
    for n in ast.walk(fn):
        if isinstance(n, ast.Call):
            f = n.func
            if isinstance(f, ast.Attribute) and isinstance(f.value, ast.Name) and f.value.id in ("self", "cls"):
                calls.add(f.attr)
            elif isinstance(f, ast.Name):
                calls.add(f.id)
    a = fn.args
    return {"arity": len(a.posonlyargs) + len(a.args), "calls": sorted(c for c in calls if c in siblings or c.startswith("_"))}


def fingerprint_module(tree) -> dict:
    """{scope: {private name: {arity, calls, callers}}} for scope '' (module functions) and every class"""
    out = {}
    scopes = {"": [st for st in tree.body if isinstance(st, (ast.FunctionDef, ast.AsyncFunctionDef))]}
    mod_fns = {f.name for f in scopes[""]}
    for st in tree.body:
        if isinstance(st, ast.ClassDef):
            scopes[st.name] = [x for x in st.body if isinstance(x, (ast.FunctionDef, ast.AsyncFunctionDef))]
    for scope, fns in scopes.items():
        names = {f.name for f in fns} | mod_fns
        fps = {f.name: _fp_of(f, names) for f in fns}
        callers = {}
        for f in fns:
            for c in fps[f.name]["calls"]:
                callers.setdefault(c, set()).add(f.name)
        if scope == "":
            # module functions are also called from methods
            for cl, cfns in scopes.items():
                for f in cfns:
                    for c in _fp_of(f, names)["calls"]:
                        if c in mod_fns:
                            callers.setdefault(c, set()).add(f"{cl}.{f.name}" if cl else f.name)
        out[scope] = {n: {**fp, "callers": sorted(callers.get(n, ()))} for n, fp in fps.items() if _is_private(n)}
    return out


def _jaccard(a, b) -> float:
    a, b = set(a), set(b)
    return 1.0 if not a and not b else len(a & b) / max(1, len(a | b))


_ANCHORS = None


def _anchor_aliases(tree, rel: str) -> Dict[str, Dict[str, str]]:
    """{scope: {current private name: frozen name}} for private names the inventory knows under another name"""
    global _ANCHORS
    if _ANCHORS is None:
        p = Path(__file__).resolve().parent / "anchors.json"
        _ANCHORS = json.loads(p.read_text()) if p.exists() else {}
    frozen = _ANCHORS.get(rel)
    if not frozen:
        return {}
    cur = fingerprint_module(tree)
    out: Dict[str, Dict[str, str]] = {}
    for scope, fz in frozen.items():
        now = cur.get(scope)
        if now is None:
            continue
        missing = [n for n in fz if n not in now]
        fresh = [n for n in now if n not in fz]
        if not missing or not fresh:
            continue
        scored = []
        for m in missing:
            for f in fresh:
                a, b = fz[m], now[f]
                # names that were renamed along with it compare equal
                ga = lambda xs: ["?" if x in missing else x for x in xs]    # noqa: E731
                gb = lambda xs: ["?" if x in fresh else x for x in xs]      # noqa: E731
                sc = (1.0 if a["arity"] == b["arity"] else 0.0) + _jaccard(ga(a["calls"]), gb(b["calls"])) \
                    + _jaccard(ga(a["callers"]), gb(b["callers"]))
                scored.append((sc, m, f))
        scored.sort(reverse=True)
        used_m, used_f = set(), set()
        for sc, m, f in scored:
            if sc < 2.0 or m in used_m or f in used_f:
                continue
            # unambiguous: no other candidate for this frozen name within 0.25
            rivals = [s2 for s2, m2, f2 in scored if m2 == m and f2 != f and f2 not in used_f and s2 > sc - 0.25]
            if rivals:
                continue
            used_m.add(m)
            used_f.add(f)
            out.setdefault(scope, {})[f] = m
    return out


class _AliasRenamer(ast.NodeTransformer):
    def __init__(self, aliases):
        self.aliases = aliases       # {scope: {current: frozen}}
        self.flat = {}
        for sc, d in aliases.items():
            if sc:
                self.flat.update(d)

    def visit_Module(self, node):
        for st in node.body:
            if isinstance(st, (ast.FunctionDef, ast.AsyncFunctionDef)) and st.name in self.aliases.get("", {}):
                st.name = self.aliases[""][st.name]
        self.generic_visit(node)
        return node

    def visit_ClassDef(self, node):
        d = self.aliases.get(node.name, {})
        for st in node.body:
            if isinstance(st, (ast.FunctionDef, ast.AsyncFunctionDef)) and st.name in d:
                st.name = d[st.name]
        self.generic_visit(node)
        return node

    def visit_Attribute(self, node):
        self.generic_visit(node)
        if node.attr in self.flat:
            node.attr = self.flat[node.attr]
        return node

    def visit_Name(self, node):
        if node.id in self.aliases.get("", {}):
            node.id = self.aliases[""][node.id]
        return node


class Module:
    def __init__(self, name: str, path: Path, rel: str):
        self.name = name
        self.path = path
        self.rel = rel
        self.source = path.read_text()
        self.tree = ast.parse(self.source, filename=str(path))
        # a renamed private helper is analysed under the name the rules know (see tools/gen_anchors.py)
        self.anchor_aliases = _anchor_aliases(self.tree, rel)
        if self.anchor_aliases:
            _AliasRenamer(self.anchor_aliases).visit(self.tree)
        self.functions: Dict[str, ast.FunctionDef] = {}
        self.classes: Dict[str, ClassInfo] = {}
        self.imports: Dict[str, str] = {}
        self.consts: Dict[str, ast.expr] = {}
        for st in self.tree.body:
            self._top(st)

    def _top(self, st):
        if isinstance(st, (ast.FunctionDef, ast.AsyncFunctionDef)):
            self.functions[st.name] = st
        elif isinstance(st, ast.ClassDef):
            self.classes[st.name] = ClassInfo(self, st)
        elif isinstance(st, ast.Import):
            for al in st.names:
                self.imports[al.asname or al.name.split(".")[0]] = al.name
        elif isinstance(st, ast.ImportFrom):
            for al in st.names:
                self.imports[al.asname or al.name] = f"{'.' * st.level}{st.module or ''}.{al.name}"
        elif isinstance(st, ast.Assign):
            for t in st.targets:
                if isinstance(t, ast.Name):
                    self.consts[t.id] = st.value
        elif isinstance(st, (ast.Try, ast.If)):
            for sub in st.body:
                self._top(sub)

    def loc(self, node) -> str:
        return f"{self.rel}:{getattr(node, 'lineno', 0)}"


class Repo:
    def __init__(self, root: Path = DEFAULT_REPO):
        self.root = Path(root)
        pkg = self.root / "xdeps"
        if not pkg.is_dir():
            raise AnalysisError(f"package directory {pkg} not found")
        self.modules: Dict[str, Module] = {}
        for p in sorted(pkg.rglob("*.py")):
            rel = p.relative_to(self.root).as_posix()
            name = rel[:-3].replace("/", ".")
            if name.endswith(".__init__"):
                name = name[: -len(".__init__")]
            try:
                self.modules[name] = Module(name, p, rel)
            except SyntaxError as e:
                raise AnalysisError(f"{rel} does not parse: {e}")
        self.classes: Dict[str, ClassInfo] = {}
        for m in self.modules.values():
            for c in m.classes.values():
                # bare names are unique in this package apart from madxutils.View/table._View
                self.classes.setdefault(c.name, c)
        self._digest = None

    # ---- lookups
    def module(self, name: str) -> Module:
        full = name if name.startswith("xdeps") else f"xdeps.{name}"
        if full not in self.modules:
            raise AnalysisError(f"anchor vanished: module {full}")
        return self.modules[full]

    def cls(self, name: str) -> ClassInfo:
        if "." in name:
            mod, cname = name.rsplit(".", 1)
            m = self.module(mod)
            if cname not in m.classes:
                raise AnalysisError(f"anchor vanished: class {name}")
            return m.classes[cname]
        if name not in self.classes:
            raise AnalysisError(f"anchor vanished: class {name}")
        return self.classes[name]

    def has_cls(self, name: str) -> bool:
        return name in self.classes

    def bases(self, c: ClassInfo) -> List[ClassInfo]:
        out = []
        for b in c.base_names:
            bare = b.split(".")[-1]
            if bare in c.module.classes:
                out.append(c.module.classes[bare])
            elif bare in self.classes and bare in c.module.imports:
                out.append(self.classes[bare])
            elif bare in self.classes and b == bare and bare not in ("dict", "object", "Transformer"):
                out.append(self.classes[bare])
        return out

    def mro(self, c: ClassInfo) -> List[ClassInfo]:
        # single inheritance throughout the package; depth-first is the C3 order then
        out = [c]
        for b in self.bases(c):
            for x in self.mro(b):
                if x not in out:
                    out.append(x)
        return out

    def lookup(self, c: ClassInfo, meth: str):
        for k in self.mro(c):
            if meth in k.methods:
                return k, k.methods[meth]
        return None

    def class_const(self, c: ClassInfo, name: str):
        for k in self.mro(c):
            if name in k.consts:
                return k.consts[name]
        return None

    def is_subclass(self, c: ClassInfo, base: str) -> bool:
        return any(k.name == base for k in self.mro(c))

    def subclasses(self, base: str, strict: bool = True) -> List[ClassInfo]:
        out = []
        for m in self.modules.values():
            for c in m.classes.values():
                if self.is_subclass(c, base) and (not strict or c.name != base):
                    out.append(c)
        return out

    def method(self, cname: str, meth: str, inherited: bool = False) -> ast.FunctionDef:
        c = self.cls(cname)
        if inherited:
            r = self.lookup(c, meth)
            if r is None:
                raise AnalysisError(f"anchor vanished: {cname}.{meth}")
            return r[1]
        if meth not in c.methods:
            raise AnalysisError(f"anchor vanished: method {c.qual}.{meth}")
        return c.methods[meth]

    def has_method(self, cname: str, meth: str) -> bool:
        return cname in self.classes and meth in self.classes[cname].methods

    def function(self, mod: str, name: str) -> ast.FunctionDef:
        m = self.module(mod)
        if name not in m.functions:
            raise AnalysisError(f"anchor vanished: function {m.name}.{name}")
        return m.functions[name]

    def all_functions(self):
        """(module, classinfo|None, FunctionDef) for every def in the package (nested ones included)."""
        for m in self.modules.values():
            for f in m.functions.values():
                yield m, None, f
            for c in m.classes.values():
                seen = set()
                for f in list(c.methods.values()) + list(c.setters.values()):
                    if id(f) in seen:
                        continue
                    seen.add(id(f))
                    yield m, c, f

    def digest(self) -> str:
        if self._digest is None:
            h = hashlib.sha256()
            for name in sorted(self.modules):
                h.update(name.encode())
                h.update(self.modules[name].source.encode())
            self._digest = h.hexdigest()[:16]
        return self._digest

    def stats(self) -> dict:
        nfun = sum(1 for _ in self.all_functions())
        return {
            "modules": len(self.modules),
            "classes": sum(len(m.classes) for m in self.modules.values()),
            "functions": nfun,
            "source_digest": self.digest(),
        }


# --------------------------------------------------------------------------- obligations


@dataclass
class Ob:
    rule: str          # e.g. "C01.R1"
    construct: str     # qualified construct, e.g. "Manager.set_value#write-before-propagate"
    ok: bool
    where: str         # file:line at the time of the run
    text: str          # the obligation
    facts: str = ""    # what supports / refutes it
    note: bool = False  # cross-reference note: reported, never a violation
    positive: bool = False  # the failure rests on something *found* (a forbidden call, a wrong operand), not on something missing
    discharged_by: tuple = ()  # names of the calls that would discharge the obligation: an unreadable helper that mentions none cannot

    @property
    def key(self) -> str:
        return f"{self.rule}@{self.construct}"

    def to_json(self) -> dict:
        return {
            "rule": self.rule,
            "construct": self.construct,
            "verdict": "holds" if self.ok else ("note" if self.note else "FAILS"),
            "where": self.where,
            "obligation": self.text,
            "facts": self.facts,
        }


class Collector:
    """Obligation sink handed to the rules of one property."""

    def __init__(self, repo: Repo, prop: str, tier: str):
        self.repo = repo
        self.prop = prop
        self.tier = tier
        self.obs: List[Ob] = []
        self.counters: Dict[str, int] = {}
        self.info: Dict[str, object] = {}
        self.errors: List[str] = []

    def add(self, rule, construct, ok, where, text, facts="", note=False, positive=False, discharged_by=()) -> Ob:
        ob = Ob(rule, construct, bool(ok), where, text, facts, note, positive, tuple(discharged_by))
        self.obs.append(ob)
        return ob

    def ok(self, rule, construct, where, text, facts=""):
        return self.add(rule, construct, True, where, text, facts)

    def fail(self, rule, construct, where, text, facts=""):
        return self.add(rule, construct, False, where, text, facts)

    def count(self, name, n=1):
        self.counters[name] = self.counters.get(name, 0) + n

    def rule(self):
        """context for one rule of a property: a rule that cannot decide (AnalysisError) does not keep the other rules from
        being evaluated -- their violations are reported; the run is *cannot decide* only if nothing was violated"""
        col = self

        class _R:
            def __enter__(self_):
                return col

            def __exit__(self_, et, ev, tb):
                if et is not None and issubclass(et, AnalysisError):
                    col.errors.append(str(ev))
                    return True
                return False
        return _R()

    def rule_counts(self) -> Dict[str, int]:
        out: Dict[str, int] = {}
        for o in self.obs:
            out[o.rule] = out.get(o.rule, 0) + 1
        return out


# --------------------------------------------------------------------------- known findings


def load_known(path: Path = VERIF / "KNOWN_FINDINGS.txt"):
    known: Dict[str, Dict[str, str]] = {}
    fixed = []
    if not path.exists():
        return known, fixed
    for raw in path.read_text().splitlines():
        line = raw.strip()
        if not line or line.startswith("#"):
            continue
        if line.startswith("known:"):
            body = line[len("known:"):].strip()
            fields = dict(tok.split("=", 1) for tok in body.split(None, 2)[:2])
            rest = body.split(None, 2)[2] if len(body.split(None, 2)) > 2 else ""
            known.setdefault(fields["property"], {})[fields["key"]] = rest
        elif line.startswith("fixed:"):
            fixed.append(line)
    return known, fixed


# --------------------------------------------------------------------------- runner


def _fn_at(mod: "Module", line: int):
    best = None
    for n in ast.walk(mod.tree):
        if isinstance(n, (ast.FunctionDef, ast.AsyncFunctionDef)) and n.lineno <= line <= (n.end_lineno or n.lineno):
            if best is None or n.lineno >= best.lineno:
                best = n
    return best


def _table_dispatch_in(fn: ast.AST, private: bool) -> Optional[str]:
    """A call through a local name whose value the program text determines (a row of a table, `.get` on one, `getattr(self, <computed>)`,
    a partial application, a lambda, the result of a private helper, a parameter of a private helper) but which the normal form does not
    resolve: what such a function does is then not visible to a rule that looks for the statements themselves."""
    defs: Dict[str, List[ast.AST]] = {}
    for n in ast.walk(fn):
        if isinstance(n, ast.Assign):
            for t in n.targets:
                if isinstance(t, ast.Name):
                    defs.setdefault(t.id, []).append(n.value)
        elif isinstance(n, (ast.For, ast.comprehension)):
            for t in ast.walk(n.target):
                if isinstance(t, ast.Name) and not isinstance(n.iter, ast.Call):
                    defs.setdefault(t.id, []).append(ast.Subscript(value=n.iter, slice=ast.Constant(value=0), ctx=ast.Load()))
    params = {a.arg for a in fn.args.args + fn.args.kwonlyargs + fn.args.posonlyargs} - {"self", "cls"}

    def table_like(v, seen=()) -> bool:
        if isinstance(v, ast.IfExp):
            return table_like(v.body, seen) or table_like(v.orelse, seen)
        if isinstance(v, ast.Name) and v.id not in seen:
            return any(table_like(w, seen + (v.id,)) for w in defs.get(v.id, []))
        if isinstance(v, (ast.Subscript, ast.Lambda)):
            return True
        if isinstance(v, ast.Call):
            d = v.func
            if isinstance(d, ast.Attribute) and d.attr == "get":
                return True
            if isinstance(d, ast.Attribute) and d.attr == "partial" or isinstance(d, ast.Name) and d.id == "partial":
                return True
            if isinstance(d, ast.Name) and d.id == "getattr" and len(v.args) >= 2 and isinstance(v.args[0], ast.Name) and v.args[0].id == "self" \
                    and not isinstance(v.args[1], ast.Constant):
                return True
            if isinstance(d, ast.Attribute) and isinstance(d.value, ast.Name) and d.value.id == "self" and _is_private(d.attr):
                return True
            if isinstance(d, ast.Name) and _is_private(d.id):
                return True
        return False
    for n in ast.walk(fn):
        if isinstance(n, ast.Call) and isinstance(n.func, ast.Name):
            nm = n.func.id
            if any(table_like(v) for v in defs.get(nm, [])) or (private and nm in params and nm not in defs):
                return f"{fn.name}: `{ast.unparse(n)[:60]}` (line {n.lineno}) calls through `{nm}`, which is chosen from a table, a partial application or a helper"
    return None


def unresolved_dispatch(repo: "Repo", where: str, depth: int = 3, needs: tuple = ()) -> Optional[str]:
    """The function a violation is located in, or a private helper it calls (these are inlined into it), dispatches through a table."""
    try:
        rel, line = where.rsplit(":", 1)
        line = int(line)
    except ValueError:
        return None
    mod = next((m for m in repo.modules.values() if m.rel == rel), None)
    if mod is None:
        return None
    fn = _fn_at(mod, line)
    if fn is None:
        return None
    fns_by_name: Dict[str, List[ast.AST]] = {}
    for n in ast.walk(mod.tree):
        if isinstance(n, (ast.FunctionDef, ast.AsyncFunctionDef)):
            fns_by_name.setdefault(n.name, []).append(n)
    seen, todo = set(), [(fn, 0)]
    while todo:
        f, d = todo.pop()
        if id(f) in seen:
            continue
        seen.add(id(f))
        r = _table_dispatch_in(f, _is_private(f.name) and not (f.name.startswith("__") and f.name.endswith("__")))
        if r:
            # the normal form may have resolved it (a helper inlined with the callable substituted): judge the normalised function
            try:
                from .rules.common import sctx
                owner = next((c.name for c in ast.walk(mod.tree) if isinstance(c, ast.ClassDef) and fn in c.body), None)
                sx = sctx(repo, owner, fn.name, None if owner else mod.name)
                r2 = _table_dispatch_in(sx.fn, _is_private(fn.name) and not (fn.name.startswith("__") and fn.name.endswith("__")))
            except Exception:
                return r
            if r2:
                return r2
            break       # resolved in the normal form -- or the helper was not dissolved at all: the check below says which
        if d >= depth:
            continue
        for n in ast.walk(f):
            if isinstance(n, ast.Call):
                nm = n.func.attr if isinstance(n.func, ast.Attribute) and isinstance(n.func.value, ast.Name) and n.func.value.id in ("self", "cls") \
                    else n.func.id if isinstance(n.func, ast.Name) else None
                if nm and _is_private(nm) and not (nm.startswith("__") and nm.endswith("__")):
                    for g in fns_by_name.get(nm, []):
                        todo.append((g, d + 1))
    # a private helper called here that the normal form could not dissolve (it reports why): what the function does is then only
    # partly visible, and "the statements are not there" is not evidence
    try:
        from .rules.common import sctx
        owner = next((c.name for c in ast.walk(mod.tree) if isinstance(c, ast.ClassDef) and fn in c.body), None)
        sx = sctx(repo, owner, fn.name, None if owner else mod.name)
        called = {n.func.attr if isinstance(n.func, ast.Attribute) else getattr(n.func, "id", None) for n in ast.walk(sx.fn) if isinstance(n, ast.Call)}
        for why in getattr(sx.cx, "opaque", []) or []:
            hname = why.split(":", 1)[0].split(".")[-1]
            reason = why.split(":", 1)[1].strip() if ":" in why else ""
            # only constructs *inside* the helper that the normal form has no reading of (the call-protocol refusals -- star arguments,
            # a return in a branch that does not always exit -- leave the helper's statements analysable where the rules look at it)
            unreadable = reason.startswith(("nested definitions", "return inside", "return in a try body", "too large", "pattern ",
                                            "alternative patterns", "positional class patterns", "star patterns", "positional-only"))
            if not unreadable:
                continue
            if needs and not any((isinstance(x, ast.Attribute) and x.attr in needs) or (isinstance(x, ast.Name) and x.id in needs)
                                 or (isinstance(x, ast.Constant) and x.value in needs)
                                 or (isinstance(x, ast.Call) and isinstance(x.func, ast.Name) and x.func.id in ("getattr", "setattr", "eval", "exec"))
                                 for g in fns_by_name.get(hname, []) for x in ast.walk(g)):
                continue    # whatever the helper does, it does not do what the obligation misses
            if hname in called and _is_private(hname) and not (hname.startswith("__") and hname.endswith("__")):
                return f"{fn.name}: the private helper {why.split(':', 1)[0]} could not be dissolved ({why.split(':', 1)[1].strip()[:60]})"
    except Exception:
        return None
    return None


def run_property(prop: str, tier: str, check: Callable, floors: Dict[str, int], meta: dict,
                 repo_root: Path = DEFAULT_REPO, write_evidence: bool = True, quiet: bool = False) -> int:
    """Run one property's rules; print verdict lines; write evidence; return exit code."""
    t0 = time.time()
    seed = int(os.environ.get("VERIF_SEED", "0") or 0)
    out_dir = VERIF / "evidence"
    replay_dir = VERIF / "out" / "replay"
    try:
        repo = Repo(repo_root)
        col = Collector(repo, prop, tier)
        check(col)
        counts = col.rule_counts()
        # a failed obligation is positive evidence whatever the instance count; the floor guards vacuous *passes* only
        known_keys = load_known()[0].get(prop, {})
        # a violation located in a function that dispatches through a table the normal form does not resolve is not decided:
        # the statements the rule looks for may sit behind the table
        for o in list(col.obs):
            if not o.ok and not o.note and not o.positive and o.key not in known_keys:
                why = unresolved_dispatch(repo, o.where, needs=o.discharged_by)
                if why:
                    col.errors.append(f"{o.rule} @ {o.construct}: not decided -- {why}")
                    col.obs.remove(o)
        has_violation = any(not o.ok and not o.note and o.key not in known_keys for o in col.obs)
        if col.errors and not has_violation:
            raise AnalysisError("; ".join(dict.fromkeys(col.errors)))
        for rule, floor in floors.items():
            if counts.get(rule, 0) < floor and not has_violation:
                raise AnalysisError(
                    f"instance floor: rule {rule} produced {counts.get(rule, 0)} obligations, "
                    f"expected at least {floor} (a rule that matches nothing would pass vacuously)")
    except AnalysisError as e:
        print(f"ANALYSIS-ERROR property={prop} {e}")
        return 2
    except Exception:
        print(f"ANALYSIS-ERROR property={prop} internal error")
        traceback.print_exc()
        return 2

    known, _fixed = load_known()
    known_here = known.get(prop, {})
    failed = [o for o in col.obs if not o.ok and not o.note]
    notes = [o for o in col.obs if o.note and not o.ok]
    violations = [o for o in failed if o.key not in known_here]
    matched_known = [o for o in failed if o.key in known_here]
    # several obligations may share a key (same construct, several facts): report each key once
    seen = set()
    rc = 0
    for o in matched_known:
        if o.key in seen:
            continue
        seen.add(o.key)
        if not quiet:
            print(f"KNOWN-FINDING: property={prop} {o.key} {known_here[o.key]}")
    replay_paths = []
    if violations:
        replay_dir.mkdir(parents=True, exist_ok=True)
    for i, o in enumerate(violations):
        rp = replay_dir / f"{prop}-{i}.json"
        rp.write_text(json.dumps({"property": prop, "tier": tier, **o.to_json(), "key": o.key,
                                  "source_digest": repo.digest()}, indent=1))
        replay_paths.append(str(rp))
        print(f"VIOLATION property={prop} replay={rp}")
        print(f"  rule {o.rule} @ {o.construct}  [{o.where}]")
        print(f"  obligation: {o.text}")
        if o.facts:
            print(f"  facts: {o.facts}")
        rc = 1
    if not quiet:
        for o in notes:
            print(f"note: {o.rule} @ {o.construct} [{o.where}] {o.text} -- {o.facts}")

    audit_result = None
    if tier == "thorough" and not violations:
        # sensitivity audit on scratch variants of this tree (figures only: the verdict above stands)
        try:
            from .audit import audit
            import re as _re
            anchors = set()
            for o in col.obs:
                for part in _re.split(r"[~,]", o.construct.split("#")[0]):
                    part = part.strip()
                    if _re.fullmatch(r"[A-Za-z_][\w]*(\.[A-Za-z_][\w]*)?", part):
                        anchors.add(part.replace("sorting.", ""))
            audit_result = audit(prop, Path(repo_root), anchors)
            if not quiet:
                a = audit_result
                print(f"audit: recorded breakages reported {a['seeded']['reported']}/{a['seeded']['still_apply']}; "
                      f"recorded refactors silent {a['benign']['silent']}/{a['benign']['still_apply']}; "
                      f"mutants of anchor functions killed {a['mutants']['killed']}/{a['mutants']['sampled']} "
                      f"(cannot decide {a['mutants']['cannot_decide']}, survived {len(a['mutants']['survived'])}; population {a['mutants']['population']})")
        except Exception as e:      # the audit is auxiliary: never let it decide the run
            audit_result = {"error": f"{type(e).__name__}: {e}"}
    wall = time.time() - t0
    if write_evidence:
        out_dir.mkdir(exist_ok=True)
        distinct = len({o.key for o in col.obs})
        samples = [o.to_json() for o in col.obs if not o.ok][:10]
        per_rule_seen = set()
        for o in col.obs:
            if o.ok and o.rule not in per_rule_seen:
                per_rule_seen.add(o.rule)
                samples.append(o.to_json())
        ev = {
            "property_id": prop,
            "tier": tier,
            "seed": seed,
            "level": "other",
            "coverage": {
                "explanation": meta.get("explanation", ""),
                "obligations": len(col.obs),
                "discharged": sum(1 for o in col.obs if o.ok),
                "evaluations": len(col.obs),
                "distinct_nontrivial": distinct,
                "rule": "one evaluation = one rule instance (obligation) derived from the current source of /repo; "
                        "distinct = distinct rule@construct keys; every instance is non-trivial in the sense that "
                        "it names a concrete construct of the source and would fail on the mutation listed for "
                        "its rule in DESIGN.md",
                "samples": samples,
                "exhaustive": True,
                "per_rule": counts,
                "instance_floors": floors,
                "rules": meta.get("rules", {}),
                "decides": meta.get("decides", ""),
                "not_decided": meta.get("not_decided", ""),
                "analysed": {**repo.stats(), **col.counters, **{k: v for k, v in col.info.items()}},
                "known_findings_matched": sorted(seen),
                "notes": [o.to_json() for o in notes],
                "all_obligations": [f"{o.key} :: {'holds' if o.ok else ('note' if o.note else 'FAILS')}" for o in col.obs],
                **({"thorough_audit": audit_result} if audit_result is not None else {}),
                "checker_cmd": f"python3-vt -m xsa check {prop} --tier {tier}",
                "trusted_base": ["CPython ast module", "xsa engine (model, normaliser, CFG, reaching definitions, symbolic terms)",
                                 "Python data-model tables in xsa/pydata.py", "networkx (dominators, reachability)",
                                 "sympy / lark where the property uses them"],
            },
            "assumptions": meta.get("assumptions", []),
            "wall_s": round(wall, 3),
            "violations": len(violations),
        }
        (out_dir / f"{prop}.json").write_text(json.dumps(ev, indent=1, default=str))
    if not quiet:
        print(f"{prop} [{tier}] obligations={len(col.obs)} discharged={sum(1 for o in col.obs if o.ok)} "
              f"known={len(seen)} violations={len(violations)} notes={len(notes)} wall={wall:.2f}s")
    return rc
