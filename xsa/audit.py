"""Thorough tier: sensitivity audit of one property's check on scratch variants of the tree under analysis.

The verdict of a run is always the verdict of the rules on the tree itself.  The thorough tier additionally measures what the
check can and cannot see *on this tree*, by re-running it (statically, as a subprocess whose output is captured) on scratch
copies that differ from the tree in one recorded or computed edit:

  seeds    the recorded breakages of this property (/verif/seeded/*/patch.diff) that still apply: expected to be reported
  benign   the recorded behaviour-preserving refactors (/verif/benign/*/patch.diff) that still apply: expected silent
  mutants  single-point AST mutants of the property's anchor functions (a deterministic sample): killed / cannot decide / survived

Nothing here executes /repo's code; scratch copies live in a temporary directory outside /repo and /verif and are removed.
The figures go into the evidence file; they never change the exit code (a survivor is a measured blind spot of a static
check or an equivalent mutant, not a property violation of the tree).
"""
from __future__ import annotations

import ast
import json
import os
import random
import shutil
import subprocess
import tempfile
from concurrent.futures import ThreadPoolExecutor
from pathlib import Path

from .mutate import PROPS_OF_FILE, TARGETS, functions, mutants_of, apply

VERIF = Path(__file__).resolve().parent.parent


def _scratch(root: Path) -> Path:
    d = Path(tempfile.mkdtemp(prefix="xsa_audit_"))
    for p in (root / "xdeps").rglob("*.py"):
        dst = d / p.relative_to(root)
        dst.parent.mkdir(parents=True, exist_ok=True)
        shutil.copyfile(p, dst)
    return d


def _check(prop: str, d: Path):
    c = subprocess.run(["python3-vt", "-m", "xsa", "check", prop, "--repo", str(d), "--no-evidence"], cwd=VERIF,
                       capture_output=True, text=True, env={**os.environ, "VERIF_TIER": "quick"})
    rules = [l.strip()[5:].split("  [")[0] for l in c.stdout.splitlines() if l.startswith("  rule")]
    err = [l[:200] for l in c.stdout.splitlines() if l.startswith("ANALYSIS-ERROR")]
    return c.returncode, rules[:3] or err[:1]


def _apply_patch(d: Path, patch: Path) -> bool:
    r = subprocess.run(["patch", "-p1", "-s", "-f", "--no-backup-if-mismatch", "-i", str(patch)], cwd=d, capture_output=True, text=True)
    return r.returncode == 0


def _patch_job(args):
    prop, root, patch = args
    d = _scratch(root)
    try:
        if not _apply_patch(d, patch):
            return patch.parent.name, None, []
        rc, info = _check(prop, d)
        return patch.parent.name, rc, info
    finally:
        shutil.rmtree(d, ignore_errors=True)


def _mutant_job(args):
    prop, root, rel, qual, op, desc, k, how = args
    d = _scratch(root)
    try:
        path = d / rel
        tree = ast.parse(path.read_text())
        fn = functions(tree).get(qual)
        if fn is None or not apply(fn, k, how):
            return (rel, qual, op, desc), None, []
        ast.fix_missing_locations(tree)
        path.write_text(ast.unparse(tree))
        rc, info = _check(prop, d)
        return (rel, qual, op, desc), rc, info
    finally:
        shutil.rmtree(d, ignore_errors=True)


def audit(prop: str, root: Path, anchors=None, n_mutants: int = 60, jobs: int = 12) -> dict:
    seed = int(os.environ.get("VERIF_SEED", "0") or 0)
    out = {"seed": seed, "anchor_functions": sorted(a for a in (anchors or ()) if "." in a)[:80]}
    seeds = []
    for sd in sorted((VERIF / "seeded").iterdir()) if (VERIF / "seeded").is_dir() else []:
        mp, pp = sd / "meta.json", sd / "patch.diff"
        if pp.exists() and mp.exists():
            try:
                if json.loads(mp.read_text()).get("property") == prop:
                    seeds.append(pp)
            except ValueError:
                pass
    files = [rel for rel, ps in PROPS_OF_FILE.items() if prop in ps]
    benign = []
    for bd in sorted((VERIF / "benign").iterdir()) if (VERIF / "benign").is_dir() else []:
        pp = bd / "patch.diff"
        if pp.exists() and any(f"b/{rel}" in pp.read_text() for rel in files):
            benign.append(pp)
    muts = []
    anchors = set(anchors or ())
    classes = {a for a in anchors if "." not in a}
    for p in sorted((root / "xdeps").rglob("*.py")):
        rel = p.relative_to(root).as_posix()
        fns = functions(ast.parse(p.read_text()))
        for qual, fn in fns.items():
            cls, _, meth = qual.rpartition(".")
            # the functions this property's obligations are anchored in (by name), or -- without that list -- the frozen table
            hit = (qual in anchors or (cls in classes and meth in ("__cinit__", "__repr__", "__reduce__", "_get_value", "_get_dependencies"))) \
                if anchors else (rel in files and qual in TARGETS.get(rel, []))
            if hit:
                for op, desc, k, how in mutants_of(fn):
                    muts.append((prop, root, rel, qual, op, desc, k, how))
    random.Random(seed * 7919 + sum(map(ord, prop))).shuffle(muts)
    total_muts = len(muts)
    muts = muts[:n_mutants]
    with ThreadPoolExecutor(jobs) as ex:
        rs = list(ex.map(_patch_job, [(prop, root, p) for p in seeds]))
        rb = list(ex.map(_patch_job, [(prop, root, p) for p in benign]))
        rm = list(ex.map(_mutant_job, muts))
    applied = [r for r in rs if r[1] is not None]
    out["seeded"] = {"recorded": len(seeds), "still_apply": len(applied), "reported": sum(1 for r in applied if r[1] == 1),
                     "not_reported": [r[0] for r in applied if r[1] != 1]}
    applied_b = [r for r in rb if r[1] is not None]
    out["benign"] = {"recorded_touching_anchor_files": len(benign), "still_apply": len(applied_b),
                     "silent": sum(1 for r in applied_b if r[1] == 0),
                     "not_silent": [{"id": r[0], "exit": r[1], "what": r[2]} for r in applied_b if r[1] != 0]}
    done = [r for r in rm if r[1] is not None]
    out["mutants"] = {"population": total_muts, "sampled": len(done), "killed": sum(1 for r in done if r[1] == 1),
                      "cannot_decide": sum(1 for r in done if r[1] == 2),
                      "survived": [f"{r[0][1]}: {r[0][2]} `{r[0][3]}`" for r in done if r[1] == 0],
                      "note": "survivors are equivalent mutants, mutants outside what the rules decide (numeric values), or blind spots; "
                              "they are reported, not counted as violations"}
    return out
