"""Single-point AST mutation operators and the target / bystander tables (shared by tools/selftest.py and the thorough tier)."""
from __future__ import annotations

import ast

PROPS_OF_FILE = {
    "xdeps/tasks.py": ["C01", "C02", "C03", "C05", "C11", "C12", "C13", "C17", "C18", "C20"],
    "xdeps/sorting.py": ["C01", "C02", "C13", "C20"],
    "xdeps/refs.py": ["C01", "C03", "C04", "C05", "C06", "C11", "C12", "C13", "C19", "C20"],
    "xdeps/table.py": ["C07", "C08", "C14"],
    "xdeps/optimize/optimize.py": ["C09", "C10", "C15", "C16"],
    "xdeps/optimize/jacobian.py": ["C09", "C10", "C15", "C16"],
    "xdeps/optimize/matrixutils.py": ["C16"],
    "xdeps/madxutils.py": ["C19"],
}
ALL_PROPS = [f"C{i:02d}" for i in range(1, 21)]

TARGETS = {
    "xdeps/tasks.py": ["Manager.set_value", "Manager.run_tasks", "Manager.register", "Manager.unregister", "Manager.find_taskids",
                       "Manager.find_tasks", "Manager.load", "Manager.dump", "Manager.copy_expr_from", "Manager.mk_fun", "Manager.gen_fun",
                       "Manager.refresh", "Manager.clone", "Manager.cleanup", "ExprTask.__init__", "ExprTask.run", "LinearKnob.run",
                       "FunctionTask.run", "Manager.freeze_tree", "Manager.unfreeze_tree", "Manager.iter_expr_tasks_owner"],
    "xdeps/sorting.py": ["toposort", "_dfs"],
    "xdeps/refs.py": ["BaseRef._mk_value", "BaseRef.__eq__", "BaseRef.__rsub__", "BaseRef.__rtruediv__", "BaseRef.__rpow__", "BaseRef.__round__",
                      "BaseRef.__divmod__", "MutableRef.__iadd__", "MutableRef.__isub__", "MutableRef._get_dependencies", "MutableRef.__reduce__",
                      "MutableRef._expr", "MutableRef.__setitem__", "Ref._get_dependencies", "AttrRef._get_value", "AttrRef._set_value",
                      "ItemRef._get_value", "ItemRef._set_value", "ItemRef.__repr__", "ItemRef.__cinit__", "BinOpExpr._get_dependencies",
                      "BinOpExpr.__repr__", "BinOpExpr.__cinit__", "UnaryOpExpr._get_dependencies", "SubExpr._get_value", "TruedivExpr._get_value",
                      "PowExpr._get_value", "BuiltinRef._get_value", "BuiltinRef._get_dependencies", "BuiltinRef.__repr__", "BuiltinRef.__reduce__",
                      "CallRef.__cinit__", "CallRef._get_value", "CallRef._get_dependencies", "CallRef.__repr__", "RefCount.append", "RefCount.remove"],
    "xdeps/table.py": ["Table._make_cache", "Table._get_cache", "Table._get_row_cache", "Table._get_row_cache_raise", "Table._split_name_count_offset",
                       "Table._get_regexp_indices", "Table._get_row_index", "Table._get_row_indices", "Table._select", "Table._select_rows",
                       "Table._select_cols", "Table.__getitem__", "Table.__setitem__", "Table._concatenate_table", "Table.__add__", "Table.__mul__",
                       "Table._copy", "Table._append_row", "Table.keys", "Table._invalidate_cache", "Indices.__getitem__", "Mask.__getitem__",
                       "_RowView._make_view", "_RowView.__getitem__", "_View.get_indices", "_View.__getitem__"],
    "xdeps/optimize/optimize.py": ["MeritFunctionForMatch.__call__", "MeritFunctionForMatch._x_to_knobs", "MeritFunctionForMatch._knobs_to_x",
                                   "MeritFunctionForMatch._get_x_limits", "MeritFunctionForMatch.get_jacobian", "MeritFunctionForMatch._clip_to_max_steps",
                                   "MeritFuctionView.__call__", "MeritFuctionView.get_jacobian", "MeritFuctionView._scaled_to_native",
                                   "MeritFuctionView._scaled_from_native", "Optimize.step", "Optimize.solve", "Optimize.reload", "Optimize.add_point_to_log",
                                   "Optimize.enable", "Optimize.disable", "Optimize._clip_to_limits", "Optimize.set_knobs_from_x", "_set_state"],
    "xdeps/optimize/jacobian.py": ["JacobianSolver.step", "JacobianSolver.eval"],
    "xdeps/optimize/matrixutils.py": ["SVD.__init__", "SVD.lstsq"],
    "xdeps/madxutils.py": ["MadxEval.__init__", "MadxEval.call", "MadxEval.getitem", "MadxEval.getattr", "MadxEval.var", "MadxEnv.__init__"],
}
BYSTANDERS = {
    "xdeps/tasks.py": ["Manager.plot_deps", "Manager.plot_tasks", "ExprTask.info", "FunctionTask.__repr__", "dct_merge", "DepEnv.__getattr__",
                       "Manager.newenv", "Manager.find_deps"],
    "xdeps/sorting.py": ["toposort2", "depsort", "reverse_graph"],
    "xdeps/refs.py": ["MutableRef._info", "CompactFormatter.repr_item", "CompactFormatter.repr_attr", "BaseRef._value", "MutableRef._eval"],
    "xdeps/table.py": ["_to_str", "Table.show", "Table.to_pandas", "Table.from_rows", "Table._get_col_regexp_indices", "_RowView.at", "_RowView.__iter__",
                       "Table._split_name_count_using_re", "Table.__repr__"],
    "xdeps/optimize/optimize.py": ["Optimize.target_status", "Optimize.vary_status", "Optimize._print_end", "_bool_array_to_string", "Optimize.plot",
                                   "TargetSet.__repr__", "Vary.__repr__", "Target.__repr__", "Optimize.run_simplex"],
    "xdeps/optimize/jacobian.py": ["JacobianSolver.solve"],
    "xdeps/madxutils.py": ["test", "View.__repr__", "MadxEnv.dump"],
    "xdeps/utils.py": ["plot_pdot", "AttrDict.__getattr__"],
}

SWAP_BINOP = {ast.Add: ast.Sub, ast.Sub: ast.Add, ast.Mult: ast.Div, ast.Div: ast.Mult, ast.BitAnd: ast.BitOr, ast.BitOr: ast.BitAnd}
SWAP_CMP = {ast.Lt: ast.GtE, ast.Gt: ast.LtE, ast.LtE: ast.Gt, ast.GtE: ast.Lt, ast.Eq: ast.NotEq, ast.NotEq: ast.Eq, ast.In: ast.NotIn,
            ast.NotIn: ast.In, ast.Is: ast.IsNot, ast.IsNot: ast.Is}
SWAP_NAME = {"appendleft": "append", "argmin": "argmax", "fullmatch": "match", "all": "any", "extend": "append", "remove": "discard",
             "concatenate": "hstack", "zeros": "ones"}


BOUNDARY_CMP = {ast.Lt: ast.LtE, ast.LtE: ast.Lt, ast.Gt: ast.GtE, ast.GtE: ast.Gt}
UNWRAP = {"sorted", "abs", "list", "set", "tuple", "reversed", "float", "int", "str", "repr", "iter"}
SWAP_FUNC = {"min": "max", "max": "min", "any": "all", "all": "any", "repr": "str", "str": "repr", "setattr": "object.__setattr__"}
del SWAP_FUNC["setattr"]


def functions(tree):
    out = {}
    for n in tree.body:
        if isinstance(n, (ast.FunctionDef, ast.AsyncFunctionDef)):
            out[n.name] = n
        elif isinstance(n, ast.ClassDef):
            for m in n.body:
                if isinstance(m, (ast.FunctionDef, ast.AsyncFunctionDef)):
                    out.setdefault(f"{n.name}.{m.name}", m)
    return out


def mutants_of(fn):
    """[(operator, description, mutate(fn_copy))] -- each mutate acts on the k-th node of a fresh copy"""
    out = []
    nodes = list(ast.walk(fn))
    for k, n in enumerate(nodes):
        if isinstance(n, ast.stmt) and isinstance(n, ast.Expr) and isinstance(n.value, ast.Call):
            out.append(("del-call", ast.unparse(n)[:60], k, "delstmt"))
        if isinstance(n, ast.Assign) and any(isinstance(t, (ast.Attribute, ast.Subscript)) for t in n.targets):
            out.append(("del-store", ast.unparse(n)[:60], k, "delstmt"))
        if isinstance(n, (ast.If, ast.While)) and not (isinstance(n.test, ast.Constant)):
            out.append(("negate-test", ast.unparse(n.test)[:60], k, "negate"))
        if isinstance(n, ast.BinOp) and type(n.op) in SWAP_BINOP:
            out.append(("swap-binop", ast.unparse(n)[:60], k, "binop"))
        if isinstance(n, ast.Compare) and len(n.ops) == 1 and type(n.ops[0]) in SWAP_CMP:
            out.append(("swap-cmp", ast.unparse(n)[:60], k, "cmp"))
        if isinstance(n, ast.Call) and len(n.args) >= 2 and not any(isinstance(a, ast.Starred) for a in n.args[:2]) \
                and ast.dump(n.args[0]) != ast.dump(n.args[1]):
            out.append(("swap-args", ast.unparse(n)[:60], k, "args"))
        if isinstance(n, ast.Attribute) and n.attr in SWAP_NAME and isinstance(n.ctx, ast.Load):
            out.append(("swap-callee", ast.unparse(n)[:60], k, "attr"))
        if isinstance(n, ast.Constant) and n.value in (0, 1) and not isinstance(n.value, bool):
            out.append(("const-0-1", ast.unparse(n), k, "const"))
        if isinstance(n, (ast.Break, ast.Continue)):
            out.append(("drop-" + type(n).__name__.lower(), "", k, "pass"))
        if isinstance(n, ast.UnaryOp) and isinstance(n.op, ast.Not):
            out.append(("drop-not", ast.unparse(n)[:60], k, "dropnot"))
        if isinstance(n, ast.Return) and n.value is not None and isinstance(n.value, ast.Call) and isinstance(n.value.func, ast.Attribute) \
                and n.value.func.attr == "copy":
            out.append(("drop-copy", ast.unparse(n)[:60], k, "dropcopy"))
    # second generation (session 5): appended after the first so that the (function, k, how) identity of older mutants is unchanged
    for k, n in enumerate(nodes):
        if isinstance(n, ast.Compare) and len(n.ops) == 1 and type(n.ops[0]) in BOUNDARY_CMP:
            out.append(("boundary-cmp", ast.unparse(n)[:60], k, "cmpb"))
        if isinstance(n, ast.BoolOp):
            out.append(("and-or", ast.unparse(n)[:60], k, "andor"))
        if isinstance(n, ast.Call):
            for i, kw in enumerate(n.keywords):
                if kw.arg is not None:
                    out.append(("drop-kwarg", f"{kw.arg}= in {ast.unparse(n.func)[:40]}", k, f"dropkw:{i}"))
            if isinstance(n.func, ast.Name) and n.func.id in UNWRAP and len(n.args) == 1 and not n.keywords \
                    and not isinstance(n.args[0], (ast.Starred, ast.GeneratorExp)):
                out.append(("unwrap-call", ast.unparse(n)[:60], k, "unwrap"))
            if isinstance(n.func, ast.Name) and n.func.id == "isinstance" and len(n.args) == 2 and isinstance(n.args[1], ast.Tuple) \
                    and len(n.args[1].elts) >= 2:
                out.append(("narrow-isinstance", ast.unparse(n)[:60], k, "narrowisi"))
            if isinstance(n.func, ast.Name) and n.func.id in SWAP_FUNC:
                out.append(("swap-func", ast.unparse(n)[:60], k, "func"))
        if isinstance(n, ast.If) and n.orelse and not (len(n.orelse) == 1 and isinstance(n.orelse[0], ast.If)):
            out.append(("drop-else", ast.unparse(n.test)[:60], k, "dropelse"))
        if isinstance(n, ast.If) and not n.orelse and not isinstance(n.test, ast.Constant):
            out.append(("always-true", ast.unparse(n.test)[:60], k, "true"))
        if isinstance(n, ast.UnaryOp) and isinstance(n.op, ast.USub) and not isinstance(n.operand, ast.Constant):
            out.append(("drop-usub", ast.unparse(n)[:60], k, "dropnot"))
        if isinstance(n, ast.Constant) and isinstance(n.value, bool):
            out.append(("flip-bool", ast.unparse(n), k, "flipbool"))
        if isinstance(n, ast.AugAssign):
            out.append(("del-augassign", ast.unparse(n)[:60], k, "delstmt"))
        if isinstance(n, ast.Compare) and len(n.ops) == 1 and isinstance(n.ops[0], (ast.Is, ast.IsNot)) \
                and isinstance(n.comparators[0], ast.Constant) and n.comparators[0].value is None:
            out.append(("none-to-falsy", ast.unparse(n)[:60], k, "nonefalsy"))
    return out


def apply(fn, k, how):
    n = list(ast.walk(fn))[k]

    def replace(old, new):
        for parent in ast.walk(fn):
            for field, val in ast.iter_fields(parent):
                if isinstance(val, list):
                    for i, x in enumerate(val):
                        if x is old:
                            val[i] = new
                            return True
                elif val is old:
                    setattr(parent, field, new)
                    return True
        return False
    if how in ("delstmt", "pass"):
        return replace(n, ast.copy_location(ast.Pass(), n))
    if how == "negate":
        n.test = ast.copy_location(ast.UnaryOp(op=ast.Not(), operand=n.test), n.test)
        return True
    if how == "binop":
        n.op = SWAP_BINOP[type(n.op)]()
        return True
    if how == "cmp":
        n.ops = [SWAP_CMP[type(n.ops[0])]()]
        return True
    if how == "args":
        n.args[0], n.args[1] = n.args[1], n.args[0]
        return True
    if how == "attr":
        n.attr = SWAP_NAME[n.attr]
        return True
    if how == "const":
        n.value = 1 - n.value
        return True
    if how == "dropnot":
        return replace(n, n.operand)
    if how == "dropcopy":
        n.value = n.value.func.value
        return True
    if how == "cmpb":
        n.ops = [BOUNDARY_CMP[type(n.ops[0])]()]
        return True
    if how == "andor":
        n.op = ast.Or() if isinstance(n.op, ast.And) else ast.And()
        return True
    if how.startswith("dropkw:"):
        del n.keywords[int(how.split(":")[1])]
        return True
    if how == "unwrap":
        return replace(n, n.args[0])
    if how == "narrowisi":
        n.args[1] = n.args[1].elts[0]
        return True
    if how == "func":
        n.func.id = SWAP_FUNC[n.func.id]
        return True
    if how == "dropelse":
        n.orelse = []
        return True
    if how == "true":
        n.test = ast.copy_location(ast.Constant(True), n.test)
        return True
    if how == "flipbool":
        n.value = not n.value
        return True
    if how == "nonefalsy":
        neg = isinstance(n.ops[0], ast.Is)
        new = ast.UnaryOp(op=ast.Not(), operand=n.left) if neg else n.left
        return replace(n, ast.copy_location(new, n))
    return False


