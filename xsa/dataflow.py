"""Reaching definitions and small def-use helpers on top of xsa.cfg."""
from __future__ import annotations

import ast
from typing import Dict, List, Optional, Set, Tuple

from . import astutil as A
from .cfg import CFG

MUTATORS = {
    "append", "extend", "insert", "remove", "pop", "clear", "sort", "reverse", "add", "discard",
    "update", "setdefault", "popitem", "appendleft", "extendleft", "fill", "put", "resize",
    "__setitem__", "__delitem__", "difference_update", "intersection_update", "symmetric_difference_update",
}


def base_name(node) -> Optional[str]:
    """root Name of a Name/Attribute/Subscript chain."""
    while isinstance(node, (ast.Attribute, ast.Subscript, ast.Starred)):
        node = node.value
    if isinstance(node, ast.Name):
        return node.id
    return None


class Def:
    """One definition event of a local name at a CFG node."""

    def __init__(self, nid: int, name: str, kind: str, value, stmt):
        self.nid = nid
        self.name = name
        self.kind = kind      # 'assign' | 'aug' | 'store' (x[i]=.. / x.a=..) | 'mutcall' | 'for' | 'param' | 'with' | 'del' | 'import' | 'except'
        self.value = value    # rhs ast (assign), AugAssign node, call node, iter expr ...
        self.stmt = stmt

    @property
    def strong(self) -> bool:
        return self.kind in ("assign", "aug", "for", "param", "with", "import", "except", "del")

    def __repr__(self):
        return f"Def({self.name}@{self.nid}:{self.kind} {A.src(self.value)[:40] if self.value is not None else ''})"


def defs_at(cfg: CFG, nid: int) -> List[Def]:
    n = cfg.nodes[nid]
    st = n.ast
    out: List[Def] = []
    if n.kind == "for":
        for nm in A.target_names(st.target):
            out.append(Def(nid, nm, "for", st.iter, st))
        return out
    if n.kind == "with":
        for it in st.items:
            if it.optional_vars is not None:
                for nm in A.target_names(it.optional_vars):
                    out.append(Def(nid, nm, "with", it.context_expr, st))
        return out
    if n.kind == "except":
        if st.name:
            out.append(Def(nid, st.name, "except", st.type, st))
        return out
    if n.kind == "test":
        # walrus
        for x in A.walk(st):
            if isinstance(x, ast.NamedExpr):
                out.append(Def(nid, x.target.id, "assign", x.value, st))
        out += _mutcalls(nid, st, st)
        return out
    if n.kind != "stmt":
        return out
    if isinstance(st, ast.Assign):
        for t in st.targets:
            _target_defs(out, nid, t, st.value, st)
    elif isinstance(st, ast.AnnAssign) and st.value is not None:
        _target_defs(out, nid, st.target, st.value, st)
    elif isinstance(st, ast.AugAssign):
        if isinstance(st.target, ast.Name):
            out.append(Def(nid, st.target.id, "aug", st, st))
        else:
            b = base_name(st.target)
            if b:
                out.append(Def(nid, b, "store", st, st))
    elif isinstance(st, ast.Delete):
        for t in st.targets:
            if isinstance(t, ast.Name):
                out.append(Def(nid, t.id, "del", None, st))
            else:
                b = base_name(t)
                if b:
                    out.append(Def(nid, b, "store", st, st))
    elif isinstance(st, (ast.Import, ast.ImportFrom)):
        for al in st.names:
            out.append(Def(nid, (al.asname or al.name).split(".")[0], "import", None, st))
    for x in A.walk(st):
        if isinstance(x, ast.NamedExpr):
            out.append(Def(nid, x.target.id, "assign", x.value, st))
    out += _mutcalls(nid, st, st)
    return out


def _target_defs(out, nid, t, value, st):
    if isinstance(t, ast.Name):
        out.append(Def(nid, t.id, "assign", value, st))
    elif isinstance(t, (ast.Tuple, ast.List)):
        for i, e in enumerate(t.elts):
            sub = value.elts[i] if isinstance(value, (ast.Tuple, ast.List)) and len(value.elts) == len(t.elts) else ast.Subscript(
                value=value, slice=ast.Constant(value=i), ctx=ast.Load())
            _target_defs(out, nid, e, sub, st)
    elif isinstance(t, ast.Starred):
        _target_defs(out, nid, t.value, value, st)
    else:
        b = base_name(t)
        if b:
            out.append(Def(nid, b, "store", st, st))


def _mutcalls(nid, node, st):
    out = []
    for c in A.calls(node):
        if isinstance(c.func, ast.Attribute) and c.func.attr in MUTATORS:
            b = base_name(c.func.value)
            # `operator.add(a, b)` / `np.add(..)`: a function of a module, not a mutator of a local container
            if b and not (isinstance(c.func.value, ast.Name) and b in ("operator", "np", "numpy", "math", "itertools", "functools")):
                out.append(Def(nid, b, "mutcall", c, st))
    return out


class ReachingDefs:
    """Classic forward may-analysis; weak updates (stores, in-place ops, mutator calls) add, strong ones kill."""

    def __init__(self, cfg: CFG):
        self.cfg = cfg
        self.defs: Dict[int, List[Def]] = {nid: defs_at(cfg, nid) for nid in cfg.nodes}
        params = []
        fn = cfg.fn
        if hasattr(fn, "args"):
            a = fn.args
            for p in a.posonlyargs + a.args + a.kwonlyargs:
                params.append(p.arg)
            if a.vararg:
                params.append(a.vararg.arg)
            if a.kwarg:
                params.append(a.kwarg.arg)
        self.defs[cfg.ENTRY] = [Def(cfg.ENTRY, p, "param", None, None) for p in params]
        self.IN: Dict[int, Set[Def]] = {nid: set() for nid in cfg.nodes}
        self.OUT: Dict[int, Set[Def]] = {nid: set() for nid in cfg.nodes}
        # along an exceptional edge the statement raised before its binding took effect: what leaves is what came in (plus its
        # in-place effects, which may have happened in part)
        self.XOUT: Dict[int, Set[Def]] = {nid: set() for nid in cfg.nodes}
        work = list(cfg.nodes)
        while work:
            nid = work.pop(0)
            ins = set()
            for p in cfg.g.predecessors(nid):
                ins |= self.XOUT[p] if cfg.g[p][nid].get("kind") == "x" else self.OUT[p]
            self.IN[nid] = ins
            out = set(ins)
            xout = set(ins)
            for d in self.defs[nid]:
                if d.strong:
                    out = {x for x in out if x.name != d.name}
                else:
                    xout.add(d)
                out.add(d)
            if nid == cfg.ENTRY:
                xout = set(out)
            if out != self.OUT[nid] or xout != self.XOUT[nid]:
                self.OUT[nid] = out
                self.XOUT[nid] = xout
                for s in cfg.g.successors(nid):
                    if s not in work:
                        work.append(s)

    def reaching(self, nid: int, name: str) -> List[Def]:
        """definitions of `name` that may reach the *entry* of node nid"""
        return sorted((d for d in self.IN[nid] if d.name == name), key=lambda d: d.nid)

    def after(self, nid: int, name: str) -> List[Def]:
        return sorted((d for d in self.OUT[nid] if d.name == name), key=lambda d: d.nid)


def uses_of(cfg: CFG, name: str) -> List[int]:
    return cfg.find(lambda x: isinstance(x, ast.Name) and x.id == name and isinstance(x.ctx, ast.Load))
