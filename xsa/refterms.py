"""Symbolic per-class model of xdeps/refs.py (every subclass of BaseRef), built on xsa.sym.

For a class and a method name the model gives the normalised function (helpers inlined) of the definition that
applies (through the MRO) together with its events; convenience accessors return the terms the rules compare:
constructor stores (parameter -> field), the `_hash` tuple, the `__reduce__` pair, the `__repr__` template, the
value computed by `_get_value`, the traversals of `_get_dependencies`.
"""
from __future__ import annotations

import ast
from typing import Dict, List, Optional, Tuple

from . import astutil as A
from . import sym as S
from .core import AnalysisError, ClassInfo, Repo
from .rules.common import SCtx, sctx

BASEREF = ("glob", "BaseRef")


def mk(x):
    """the two spellings of BaseRef._mk_value(x)"""
    return (("call", ("attr", BASEREF, "_mk_value"), (x,), ()), ("call", ("attr", S.SELF, "_mk_value"), (x,), ()),
            ("call", ("glob", "_mk_value"), (x,), ()))


def unmk(t):
    """x if t is _mk_value(x), else None"""
    if S.is_call_of(t) and len(t[2]) == 1 and not t[3]:
        f = t[1]
        if (f[:1] == ("attr",) and f[2] == "_mk_value" and f[1] in (BASEREF, S.SELF)) or f == ("glob", "_mk_value"):
            return t[2][0]
    return None


def is_ref_test(c, x) -> bool:
    """condition c is `isinstance(x, BaseRef)` (or is_ref(x))"""
    return c == S.fcall("isinstance", x, BASEREF) or c == S.fcall("is_ref", x)


class RefModel:
    def __init__(self, repo: Repo):
        self.repo = repo
        self.classes: List[ClassInfo] = repo.subclasses("BaseRef", strict=False)
        if len(self.classes) < 10:
            raise AnalysisError("fewer than 10 BaseRef subclasses found (anchor vanished)")
        self.by_name = {c.name: c for c in self.classes}
        self._cache: Dict[Tuple[str, str], SCtx] = {}

    def cls(self, name: str) -> ClassInfo:
        if name not in self.by_name:
            raise AnalysisError(f"anchor vanished: reference class {name}")
        return self.by_name[name]

    def defining(self, cname: str, meth: str) -> Optional[ClassInfo]:
        r = self.repo.lookup(self.cls(cname), meth)
        return r[0] if r else None

    def sx(self, cname: str, meth: str) -> Optional[SCtx]:
        """normalised method `meth` as it applies to class cname (None if not defined along the MRO)"""
        k = self.defining(cname, meth)
        if k is None:
            return None
        key = (k.name, meth)
        if key not in self._cache:
            self._cache[key] = sctx(self.repo, k.name, meth)
        return self._cache[key]

    def own(self, cname: str, meth: str) -> bool:
        return meth in self.cls(cname).methods

    def abstract(self, cname: str) -> bool:
        r = self.repo.lookup(self.cls(cname), "_get_value")
        if r is None:
            return True
        body = A.strip_docstring(r[1].body)
        return len(body) == 1 and isinstance(body[0], ast.Raise)

    def declared(self, cname: str) -> set:
        out = set()
        for k in self.repo.mro(self.cls(cname)):
            for nm, v in k.consts.items():
                if isinstance(v, ast.Call) and A.call_name(v) == "cython.declare":
                    out.add(nm)
        return out

    # ------------------------------------------------------------------ constructor
    def cinits(self, cname: str) -> List[Tuple[ClassInfo, SCtx]]:
        out = []
        for k in self.repo.mro(self.cls(cname)):
            if "__cinit__" in k.methods:
                key = (k.name, "__cinit__")
                if key not in self._cache:
                    self._cache[key] = sctx(self.repo, k.name, "__cinit__")
                out.append((k, self._cache[key]))
        return out

    def field_stores(self, cname: str) -> Dict[str, List[tuple]]:
        """field -> [(defining class, value term, conds)] over every __cinit__ along the MRO"""
        out: Dict[str, List[tuple]] = {}
        for k, sx in self.cinits(cname):
            for ev in sx.of_kind("store"):
                for t in S.alts(ev.target):
                    if S.is_attr(t, S.SELF):
                        out.setdefault(t[2], []).append((k, ev.value, sx.conds(ev.nid), sx, ev))
        return out

    def param_fields(self, cname: str) -> Dict[str, Dict[int, str]]:
        """defining class -> {parameter index: field} for fields that store a constructor parameter as given"""
        out: Dict[str, Dict[int, str]] = {}
        for f, lst in self.field_stores(cname).items():
            if f == "_hash":
                continue
            for k, v, conds, sx, ev in lst:
                for a in S.alts(v):
                    if a[:1] == ("param",):
                        out.setdefault(k.name, {}).setdefault(a[1], f)
        return out

    def field_of_param_term(self, cname: str, k: ClassInfo, t) -> Optional[str]:
        if t[:1] == ("param",):
            return self.param_fields(cname).get(k.name, {}).get(t[1])
        return None

    def hash_tuple(self, cname: str):
        """(defining class, sx, event, elements or None) of the `self._hash = hash((...))` that applies (first along the MRO)"""
        for k, sx in self.cinits(cname):
            for ev in sx.of_kind("store"):
                if any(t == S.sattr("_hash") for t in S.alts(ev.target)):
                    v = ev.value
                    if S.is_call_of(v, ("glob", "hash")) and len(v[2]) == 1 and v[2][0][:1] == ("tuple",):
                        return k, sx, ev, v[2][0][1]
                    return k, sx, ev, None
        return None

    def hash_fields(self, cname: str):
        """(fields, has type discriminator, unrecognised element texts)"""
        h = self.hash_tuple(cname)
        if h is None or h[3] is None:
            return set(), False, ["<no hash tuple>"]
        k, sx, ev, elts = h
        fields, disc, unk = set(), False, []
        for e in elts:
            if e in (("attr", S.fcall("type", S.SELF), "__name__"), ("attr", S.SELF, "__class__"), S.fcall("type", S.SELF),
                     ("attr", ("attr", S.SELF, "__class__"), "__name__")):
                disc = True
            elif S.is_attr(e, S.SELF):
                fields.add(e[2])
            elif e[:1] == ("param",):
                f = self.field_of_param_term(cname, k, e)
                if f is None:
                    # parameter stored by a base-class __cinit__ under the same position
                    for kk, m in self.param_fields(cname).items():
                        if e[1] in m:
                            f = m[e[1]]
                if f:
                    fields.add(f)
                else:
                    unk.append(S.show(e))
            else:
                # a local that this __cinit__ also stores into a field denotes that field
                same = [f for f, lst in self.field_stores(cname).items() if f != "_hash" and any(kk is k and v == e for kk, v, _c, _s, _e in lst)]
                if len(same) == 1:
                    fields.add(same[0])
                else:
                    unk.append(S.show(e))
        return fields, disc, unk

    # ------------------------------------------------------------------ returns
    def returns(self, cname: str, meth: str) -> List[tuple]:
        """[(event, value term, conds, in_handler)] for the return statements of the applicable definition"""
        sx = self.sx(cname, meth)
        if sx is None:
            return []
        out = []
        for ev in sx.of_kind("return"):
            out.append((ev, ev.value, sx.conds(ev.nid), in_handler(sx, ev.nid)))
        return out


def in_handler(sx: SCtx, nid: int) -> bool:
    cfg = sx.cfg
    return any(cfg.nodes[d].kind == "except" for d in cfg.dominators(nid))
