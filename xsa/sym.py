"""Symbolic values of expressions inside one (normalised) function.

`Sym(cx).of(expr, at)` turns an expression evaluated at CFG node `at` into a small set of *terms*:
expression trees in which every local name has been replaced by what it stands for (through the
reaching definitions of xsa.dataflow), down to parameters, `self`, globals, constants, loop
elements and results of calls.  Terms are nested tuples, so they compare structurally; `show`
prints them.  Because locals, temporaries, conditional expressions, comprehensions and (after
xsa.normalize) private helpers are all dissolved, a rule that matches terms does not depend on how
a function is spelled -- only on what it computes from what.

Term constructors
    ("self",)                      the receiver
    ("param", i, name)             i-th parameter (0 = first after self)
    ("glob", name)                 module-level / builtin name
    ("const", repr)
    ("attr", base, name)           base.name
    ("sub", base, key)             base[key]
    ("slice", lo, hi, step)
    ("call", func, args, kwargs)   result of a call; kwargs = ((name, term), ...)
    ("elem", iterable)             an element of an iterable (loop variable, comprehension variable)
    ("item", term, i)              i-th component of a tuple-valued term (tuple unpacking)
    ("op", sym, a, b) ("uop", sym, a) ("cmp", sym, a, b) ("bool", "and"|"or", terms) ("ifexp", c, a, b)
    ("tuple"|"list"|"set", elts)   ("dict", ((k, v), ...))
    ("acc", kind, elems)           a container built locally: kind in list/set/dict/deque; elems = tuple of
                                   contributions, each ("one", guards, term) | ("many", guards, iterable term)
                                   | ("kv", guards, key, value)
    ("aug", sym, old, value)       result of an augmented assignment
    ("alt", (t1, t2, ...))         one of several values (merge of definitions / conditional expression); `expand`
                                   distributes nested alternatives into a list of alternative-free terms
    ("rec", name)                  a loop-carried name (value depends on the previous iteration)
    ("exc", name)                  the caught exception
    ("opaque", text)               anything else
"""
from __future__ import annotations

import ast
from typing import Dict, Iterable, List, Optional, Sequence, Tuple

from . import astutil as A
from .dataflow import Def

Term = tuple

FRESH_CALLS = {"set": "set", "list": "list", "dict": "dict", "deque": "deque", "OrderedDict": "dict", "defaultdict": "dict"}
ONE_ADDERS = {"append", "add", "appendleft"}
MANY_ADDERS = {"extend", "update", "extendleft"}


def show(t, names: bool = True) -> str:
    """Readable form of a term; with names=False parameters print by position only (rename-invariant keys)."""
    if not isinstance(t, tuple) or not t:
        return str(t)
    k = t[0]
    if k == "self":
        return "self"
    if k == "param":
        return f"${t[2]}" if names else f"$p{t[1]}"
    if k == "glob":
        return t[1]
    if k == "const":
        return t[1]
    if k == "attr":
        return f"{show(t[1], names)}.{t[2]}"
    if k == "sub":
        return f"{show(t[1], names)}[{show(t[2], names)}]"
    if k == "slice":
        return ":".join("" if x is None else show(x, names) for x in t[1:])
    if k == "call":
        args = [show(a, names) for a in t[2]] + [f"{n}={show(v, names)}" for n, v in t[3]]
        return f"{show(t[1], names)}({', '.join(args)})"
    if k == "elem":
        return f"∈{show(t[1], names)}"
    if k == "item":
        return f"{show(t[1], names)}.{t[2]}"
    if k == "op":
        return f"({show(t[2], names)} {t[1]} {show(t[3], names)})"
    if k == "uop":
        return f"({t[1]}{show(t[2], names)})"
    if k == "cmp":
        return f"({show(t[2], names)} {t[1]} {show(t[3], names)})"
    if k == "bool":
        return "(" + f" {t[1]} ".join(show(x, names) for x in t[2]) + ")"
    if k == "ifexp":
        return f"({show(t[2], names)} if {show(t[1], names)} else {show(t[3], names)})"
    if k in ("tuple", "list", "set"):
        o, c = {"tuple": "()", "list": "[]", "set": "{}"}[k]
        return o + ", ".join(show(x, names) for x in t[1]) + c
    if k == "dict":
        return "{" + ", ".join(f"{show(a, names)}: {show(b, names)}" for a, b in t[1]) + "}"
    if k == "acc":
        parts = []
        for e in t[2]:
            g = ("" if not e[1] else " if " + " and ".join(("" if pol else "not ") + show(c, names) for pol, c in e[1]))
            if e[0] == "one":
                parts.append(show(e[2], names) + g)
            elif e[0] == "many":
                parts.append("*" + show(e[2], names) + g)
            elif e[0] == "reorder":
                parts.append("<" + show(e[2], names) + ">" + g)
            else:
                parts.append(f"{show(e[2], names)}: {show(e[3], names)}" + g)
        return f"{t[1]}<{'; '.join(parts)}>"
    if k == "aug":
        return f"({show(t[2], names)} {t[1]}= {show(t[3], names)})"
    if k == "alt":
        return "{" + " | ".join(show(x, names) for x in t[1]) + "}"
    if k in ("empty", "nonempty"):
        return f"{k}({show(t[1], names)})"
    if k in ("index", "key", "val"):
        return f"{k}∈{show(t[1], names)}"
    if k == "fmt":
        return "{" + show(t[2], names) + t[1] + "}"
    if k == "fstr":
        return "f'" + "".join(show(x, names) if x[0] != "const" else x[1].strip("'\"") for x in t[1]) + "'"
    if k == "rec":
        return f"~{t[1]}"
    if k == "exc":
        return f"exc:{t[1]}"
    if k == "opaque":
        return f"?{t[1]}"
    return str(t)


def subterms(t) -> Iterable[Term]:
    """t and every term nested inside it."""
    if not isinstance(t, tuple):
        return
    yield t
    for x in t[1:]:
        if isinstance(x, tuple):
            if x and isinstance(x[0], str):
                yield from subterms(x)
            else:
                for y in x:
                    if isinstance(y, tuple):
                        if y and isinstance(y[0], str):
                            yield from subterms(y)
                        else:
                            for z in y:
                                if isinstance(z, tuple):
                                    yield from subterms(z)


def contains(t, pred) -> bool:
    return any(pred(s) for s in subterms(t))


def is_attr(t, base=None, name=None) -> bool:
    return isinstance(t, tuple) and t[:1] == ("attr",) and (name is None or t[2] == name) and (base is None or t[1] == base)


def is_call_of(t, func=None, meth: Optional[str] = None, recv=None) -> bool:
    """t is a call whose function is term `func`, or a method call <recv>.<meth>(...)."""
    if not (isinstance(t, tuple) and t[:1] == ("call",)):
        return False
    f = t[1]
    if func is not None:
        return f == func
    if meth is not None:
        if not (f[:1] == ("attr",) and f[2] == meth):
            return False
        return recv is None or f[1] == recv
    return True


SELF = ("self",)


def self_attr(name: str) -> Term:
    return ("attr", SELF, name)


def _list_contribs(t):
    """contributions of a freshly built list term, in order (None if t is not one)"""
    if t[:1] == ("list",):
        out = []
        for x in t[1]:
            if x[:2] == ("uop", "*"):       # [a, *xs]: the elements of xs, in place
                inner = _list_contribs(x[2])
                if inner is not None:
                    out.extend(inner)
                else:
                    out.append(("many", (), x[2]))
            else:
                out.append(("one", (), x))
        return tuple(out)
    if t[:1] == ("acc",) and t[1] == "list":
        return tuple(t[2])
    return None


def mk_elem(it) -> Term:
    """an element of iterable `it`; list(X) / tuple(X) / iter(X) range over the same elements as X"""
    while is_call_of(it) and it[1] in (("glob", "list"), ("glob", "tuple"), ("glob", "iter")) and len(it[2]) == 1 and not it[3]:
        it = it[2][0]
    # an element of a list/set built by one comprehension (or one guarded append) is the contributed term itself;
    # the filter conditions are reported by Sym.guards for the body of a loop over it
    # for i in range(len(X)) ranges over the positions of X, as `i` of `for i, x in enumerate(X)` does
    if is_call_of(it, ("glob", "range")) and len(it[2]) == 1 and not it[3] and is_call_of(it[2][0], ("glob", "len")) \
            and len(it[2][0][2]) == 1:
        return ("index", it[2][0][2][0])
    if it[:1] in (("tuple",), ("list",)) and it[1] and len(it[1]) <= 8 and all(x[:1] == ("const",) for x in it[1]):
        # a loop over a literal tuple of constants runs its body once for each of them
        return mk_alt(list(it[1]), 8, "elem")
    if it[:1] == ("acc",) and it[1] in ("list", "set", "gen", "deque") and it[2] and all(c[0] in ("one", "many") for c in it[2]):
        return mk_alt([c[2] if c[0] == "one" else mk_elem(c[2]) for c in it[2]], 8, "elem")
    return ("elem", it)


def _simplify_items(t):
    """(a, b).0 -> a after a row was substituted for a loop element"""
    if not isinstance(t, tuple):
        return t
    t = tuple(_simplify_items(x) for x in t)
    if t[:1] == ("item",) and len(t) == 3 and isinstance(t[2], int) and t[1][:1] == ("tuple",) and -len(t[1][1]) <= t[2] < len(t[1][1]):
        return t[1][1][t[2]]
    return t


_OPERATOR_FUNCS = {"add": "+", "sub": "-", "mul": "*", "matmul": "@", "truediv": "/", "floordiv": "//", "mod": "%", "pow": "**",
                   "and_": "&", "or_": "|", "xor": "^", "lshift": "<<", "rshift": ">>"}
_CTOR_FIELDS: dict = {}


def _ctor_field_arg(module, cname: str, field: str):
    """(parameter names of C.__init__ without self, index) when `self.<field> = <parameter>` is a top-level statement of C.__init__, the
    only store of that field in it, and the parameter is not rebound before; None otherwise"""
    if module is None:
        return None
    key = (id(module), cname, field)
    if key in _CTOR_FIELDS:
        return _CTOR_FIELDS[key]
    res = None
    c = getattr(module, "classes", {}).get(cname)
    init = c.methods.get("__init__") if c is not None else None
    if init is not None and not init.args.vararg and not init.args.kwarg and not init.decorator_list:
        params = [a.arg for a in init.args.args][1:]
        stores = [n for n in ast.walk(init) if isinstance(n, ast.Attribute) and isinstance(n.ctx, ast.Store) and n.attr == field
                  and isinstance(n.value, ast.Name) and n.value.id == "self"]
        top = [st for st in init.body if isinstance(st, ast.Assign) and len(st.targets) == 1 and isinstance(st.targets[0], ast.Attribute)
               and st.targets[0].attr == field and isinstance(st.targets[0].value, ast.Name) and st.targets[0].value.id == "self"
               and isinstance(st.value, ast.Name) and st.value.id in params]
        rebound = {n.id for n in ast.walk(init) if isinstance(n, ast.Name) and isinstance(n.ctx, (ast.Store, ast.Del))}
        if len(stores) == 1 and len(top) == 1 and top[0].value.id not in rebound:
            res = (tuple(params), params.index(top[0].value.id))
    if res is None and c is not None and init is None and c.base_names:
        # a Cython extension class: __cinit__ of the class and of each of its bases receives the constructor arguments (called
        # base first, automatically); with identical parameter lists throughout, the one top-level `self.f = <parameter>` among
        # them is the field
        chain, k = [], c
        while k is not None and len(chain) < 8:
            chain.append(k)
            k = module.classes.get(k.base_names[0]) if len(k.base_names) == 1 else None
        cinits = [k.methods["__cinit__"] for k in chain if "__cinit__" in k.methods]
        def emulation(f):
            # the pure-Python stand-in: __init__(self, *args, **kwargs) handing its arguments to every __cinit__ of the MRO
            return not f.args.args[1:] and f.args.vararg and f.args.kwarg and any(
                isinstance(n, ast.Constant) and n.value == "__cinit__" for n in ast.walk(f))
        if cinits and all(emulation(k.methods["__init__"]) for k in chain if "__init__" in k.methods) and "cython.cclass" in c.decorators \
                and all(not f.args.vararg and not f.args.kwarg and not f.decorator_list for f in cinits):
            plists = {tuple(a.arg for a in f.args.args[1:]) for f in cinits}
            if len(plists) == 1:
                params = list(next(iter(plists)))
                stores, top, rebound = [], [], set()
                for f in cinits:
                    stores += [n for n in ast.walk(f) if isinstance(n, ast.Attribute) and isinstance(n.ctx, ast.Store) and n.attr == field
                               and isinstance(n.value, ast.Name) and n.value.id == "self"]
                    top += [st for st in f.body if isinstance(st, ast.Assign) and len(st.targets) == 1 and isinstance(st.targets[0], ast.Attribute)
                            and st.targets[0].attr == field and isinstance(st.targets[0].value, ast.Name) and st.targets[0].value.id == "self"
                            and isinstance(st.value, ast.Name) and st.value.id in params]
                    rebound |= {n.id for n in ast.walk(f) if isinstance(n, ast.Name) and isinstance(n.ctx, (ast.Store, ast.Del))}
                if len(stores) == 1 and len(top) == 1 and top[0].value.id not in rebound:
                    res = (tuple(params), params.index(top[0].value.id))
    _CTOR_FIELDS[key] = res
    return res


def call_args(t, names: Sequence[str]) -> Optional[Tuple[Term, ...]]:
    """the arguments of call term t in the order of the parameter `names`, whether they were passed positionally or by
    keyword; None if that cannot be told (star arguments, unknown keyword, missing argument)"""
    if not is_call_of(t):
        return None
    pos, kws = t[2], dict(t[3])
    if any(p[:1] == ("uop",) for p in pos) or "**" in kws or len(pos) > len(names):
        return None
    out = list(pos)
    for n in names[len(pos):]:
        if n not in kws:
            return None
        out.append(kws.pop(n))
    return tuple(out) if not kws else None


def coord(t):
    """(array, position) of an element access: X[i] -> (X, i); the element of X in a loop over X's positions -> (X, index X)"""
    if t[:1] == ("sub",):
        return t[1], t[2]
    if t[:1] == ("elem",):
        return t[1], ("index", t[1])
    return None


def mk_alt(alts: Sequence[Term], max_alts: int = 8, what: str = "?") -> Term:
    flat: List[Term] = []
    for t in alts:
        for x in (t[1] if (isinstance(t, tuple) and t[:1] == ("alt",)) else (t,)):
            if x not in flat:
                flat.append(x)
    if len(flat) == 1:
        return flat[0]
    if len(flat) > max_alts:
        return ("opaque", f"many:{what}")
    return ("alt", tuple(flat))


def alts(t) -> Tuple[Term, ...]:
    """top-level alternatives of a term"""
    return t[1] if (isinstance(t, tuple) and t[:1] == ("alt",)) else (t,)


def expand(t, limit: int = 32) -> Optional[List[Term]]:
    """all alternative-free instances of t (None when there are more than `limit`)"""
    def rec(x):
        if not isinstance(x, tuple):
            return [x]
        if x[:1] == ("alt",):
            out = []
            for a in x[1]:
                out.extend(rec(a))
            return out
        if x and isinstance(x[0], str):
            parts = [[x[0]]]
            for c in x[1:]:
                parts.append(rec(c))
        else:
            parts = [rec(c) for c in x]
        n = 1
        for p_ in parts:
            n *= len(p_)
            if n > limit:
                raise OverflowError
        res = [()]
        for p_ in parts:
            res = [r + (v,) for r in res for v in p_]
        return res
    try:
        return rec(t)
    except OverflowError:
        return None


def instances(t, limit: int = 32) -> List[Term]:
    """alternative-free instances of t (nested alternatives distributed); [t] when there are too many"""
    r = expand(t, limit)
    return r if r is not None else [t]


_NT_ACTIVE: Dict[str, Tuple[str, ...]] = {}     # namedtuple classes of the module under analysis (for the static _item helper)


def _namedtuples_of(module) -> Dict[str, Tuple[str, ...]]:
    """{class name: field names} for `X = namedtuple("X", [...])` / `"a b"` at module level and `class X(NamedTuple)`"""
    cache = getattr(module, "_xsa_namedtuples", None)
    if cache is not None:
        return cache
    out: Dict[str, Tuple[str, ...]] = {}
    for name, v in getattr(module, "consts", {}).items():
        if isinstance(v, ast.Call) and (A.dotted(v.func) or "").split(".")[-1] == "namedtuple" and len(v.args) >= 2:
            f = v.args[1]
            if isinstance(f, ast.Constant) and isinstance(f.value, str):
                out[name] = tuple(f.value.replace(",", " ").split())
            elif isinstance(f, (ast.List, ast.Tuple)) and all(isinstance(x, ast.Constant) and isinstance(x.value, str) for x in f.elts):
                out[name] = tuple(x.value for x in f.elts)
    for cname, c in getattr(module, "classes", {}).items():
        if any(b.split(".")[-1] == "NamedTuple" for b in getattr(c, "base_names", [])):
            out[cname] = tuple(getattr(c, "annotations", {}).keys())
    try:
        module._xsa_namedtuples = out
    except Exception:
        pass
    return out


def _nt_fields(nts, t):
    """(fields, values) if t is a call of a known namedtuple class (positional / keyword arguments), else None"""
    if not (is_call_of(t) and t[1][:1] == ("glob",) and t[1][1] in nts):
        return None
    fields = nts[t[1][1]]
    vals = list(t[2])
    if len(vals) == 1 and vals[0][:2] == ("uop", "*") and not t[3]:
        # Record(*f(x)): field i is component i of the computed tuple (as `a, b, c = f(x)` reads it)
        whole = vals[0][2]
        if whole[:1] == ("tuple",) and len(whole[1]) == len(fields):
            return fields, tuple(whole[1])
        return fields, tuple(("item", whole, i) for i in range(len(fields)))
    if any(v[:1] == ("uop",) for v in vals) or len(vals) > len(fields):
        return None
    kw = dict(t[3])
    for f in fields[len(vals):]:
        if f not in kw:
            return None
        vals.append(kw[f])
    return fields, tuple(vals)


class Sym:
    def __init__(self, cx, selfname: Optional[str] = "self", max_alts: int = 8, max_depth: int = 40):
        self.cx = cx
        self.cfg = cx.cfg
        self.rd = cx.rd
        _NT_ACTIVE.update(_namedtuples_of(getattr(cx, "module", None)) if getattr(cx, "module", None) is not None else {})
        fn = cx.fn
        a = fn.args
        ps = [p.arg for p in a.posonlyargs + a.args]
        self.selfname = selfname if (ps and ps[0] == selfname) else None
        self.params: Dict[str, Term] = {}
        idx = 0
        for p in ps:
            if p == self.selfname:
                self.params[p] = SELF
            else:
                self.params[p] = ("param", idx, p)
                idx += 1
        for p in a.kwonlyargs:
            self.params[p.arg] = ("param", idx, p.arg)
            idx += 1
        if a.vararg:
            self.params[a.vararg.arg] = ("param", idx, "*" + a.vararg.arg)
            idx += 1
        if a.kwarg:
            self.params[a.kwarg.arg] = ("param", idx, "**" + a.kwarg.arg)
        self.max_alts = max_alts
        self.max_depth = max_depth
        self._memo: Dict[tuple, Term] = {}
        self._busy: set = set()
        self._rec_pending: set = set()
        self._acc_busy: set = set()
        self.locals = {d.name for ds in self.rd.defs.values() for d in ds}

    # ------------------------------------------------------------------ public
    def of(self, expr, at: int) -> Term:
        """the value of `expr` evaluated at CFG node `at`, as a term"""
        return self._of(expr, at, 0, {})

    def param(self, name: str) -> Term:
        return self.params[name]

    def shows(self, expr, at: int) -> str:
        return show(self.of(expr, at))

    def name_at(self, name: str, at: int) -> Term:
        return self._name(name, at, 0, {})

    def guards(self, nid: int, since: Optional[int] = None) -> Tuple[tuple, ...]:
        """((polarity, term), ...) for the if/while conditions that dominate nid (loop headers and asserts excluded);
        with `since`, only those that do not also dominate node `since`."""
        out = []
        outer = set(g.id for g in self.cfg.guards(since)) if since is not None else set()
        for g in self.cfg.guards(nid):
            if g.id in outer or isinstance(g.ast, (ast.For, ast.AsyncFor)) or g.from_assert:
                continue
            pol, t = g.kind == "T", self.of(g.ast, g.of)
            while t[:2] == ("uop", "not"):          # `if not c: continue` guards the rest by c
                pol, t = not pol, t[2]
            out.append((pol, t))
        # a loop over a filtered comprehension: its filter holds for every element the body sees
        for g in self.cfg.guards(nid):
            if g.id in outer or not (g.kind == "T" and isinstance(g.ast, (ast.For, ast.AsyncFor))):
                continue
            it = self.of(g.ast.iter, g.of)
            while is_call_of(it) and it[1] in (("glob", "list"), ("glob", "tuple"), ("glob", "iter")) and len(it[2]) == 1 and not it[3]:
                it = it[2][0]
            if it[:1] == ("acc",) and len(it[2]) == 1 and it[2][0][0] == "one":
                out.extend(it[2][0][1])
        return tuple(out)

    def loops(self, nid: int) -> Tuple[Term, ...]:
        """iterable terms of the for-loops whose body contains nid, outermost first"""
        out = []
        for g in reversed(self.cfg.guards(nid)):
            if g.kind == "T" and isinstance(g.ast, (ast.For, ast.AsyncFor)):
                it = self.of(g.ast.iter, g.of)
                # the collection ranged over, however it is walked: range(len(X)), enumerate(X), list(X), iter(X)
                while True:
                    if is_call_of(it) and it[1] in (("glob", "list"), ("glob", "tuple"), ("glob", "iter"), ("glob", "enumerate")) and len(it[2]) >= 1 and not it[3]:
                        it = it[2][0]
                    elif is_call_of(it, ("glob", "range")) and len(it[2]) == 1 and is_call_of(it[2][0], ("glob", "len")) and len(it[2][0][2]) == 1:
                        it = it[2][0][2][0]
                    else:
                        break
                out.append(it)
        return tuple(out)

    # ------------------------------------------------------------------ internals
    def _of(self, e, at: int, depth: int, cenv: dict) -> Term:
        if e is None:
            return ("const", "None")
        if depth > self.max_depth:
            return ("opaque", A.src(e)[:40])
        d = depth + 1
        rec = lambda x: self._of(x, at, d, cenv)   # noqa: E731
        if isinstance(e, ast.Name):
            if e.id in cenv:
                return cenv[e.id]
            return self._name(e.id, at, d, cenv)
        if isinstance(e, ast.Constant):
            return ("const", repr(e.value))
        if isinstance(e, ast.Attribute):
            v = rec(e.value)
            nts = _namedtuples_of(getattr(self.cx, "module", None))
            if nts:
                for a in alts(v):
                    nf = _nt_fields(nts, a)
                    if nf is not None and e.attr in nf[0] and len(alts(v)) == 1:
                        return nf[1][nf[0].index(e.attr)]
            # C(a, b).field where C's __init__ stores that field straight from a parameter: the argument itself
            if is_call_of(v) and v[1][:1] == ("glob",) and len(alts(v)) == 1:
                fa = _ctor_field_arg(getattr(self.cx, "module", None), v[1][1], e.attr)
                if fa is not None:
                    got = call_args(v, fa[0])
                    if got is not None:
                        return got[fa[1]]
            # self.TABLE where TABLE is a class-level literal (tuple / dict of constants and names) that no method rebinds
            cls = getattr(self.cx, "cls", None)
            if v == SELF and cls is not None and e.attr in getattr(cls, "consts", {}) and e.attr.isupper() or \
                    (v == SELF and cls is not None and e.attr in getattr(cls, "consts", {}) and e.attr.lstrip("_").isupper()):
                cv = cls.consts[e.attr]
                if isinstance(cv, (ast.Tuple, ast.List, ast.Dict)) and all(
                        isinstance(n, (ast.Tuple, ast.List, ast.Dict, ast.Constant, ast.Name, ast.Load, ast.Attribute)) for n in ast.walk(cv)) \
                        and not self._class_rebinds(cls, e.attr):
                    return self._of(cv, at, d, {})
            return ("attr", v, e.attr)
        if isinstance(e, ast.Subscript):
            v, i = rec(e.value), rec(e.slice)

            def _as_slice(t):
                # x[slice(a, b)] is x[a:b] (one slice object used for several subscripts), also inside an index tuple
                if is_call_of(t, ("glob", "slice")) and 1 <= len(t[2]) <= 3 and not t[3] and "slice" not in self.locals:
                    none = ("const", "None")
                    pos_ = t[2]
                    lo, hi, stp = (none, pos_[0], none) if len(pos_) == 1 else (pos_[0], pos_[1], pos_[2] if len(pos_) == 3 else none)
                    return ("slice",) + tuple(None if x == none else x for x in (lo, hi, stp))
                return t
            i = _as_slice(i)
            if i[:1] == ("tuple",):
                i = ("tuple", tuple(_as_slice(x) for x in i[1]))
            if v[:1] == ("tuple",) and i[:1] == ("const",) and i[1].lstrip("-").isdigit() and isinstance(getattr(e, "ctx", None), ast.Load) \
                    and -len(v[1]) <= int(i[1]) < len(v[1]) and not any(x[:1] == ("uop",) for x in v[1]):
                return v[1][int(i[1])]      # (a, b)[1] is b
            if i[:1] == ("index",) and i[1] == v and isinstance(getattr(e, "ctx", None), ast.Load):
                return ("elem", v)      # X[i] with i a position of X (same iteration): the element
            return ("sub", v, i)
        if isinstance(e, ast.Slice):
            return ("slice",) + tuple(rec(x) if x is not None else None for x in (e.lower, e.upper, e.step))
        if isinstance(e, ast.Call):
            # any(P(x) for x in (a, b, c)) is P(a) or P(b) or P(c); all(...) likewise with `and`
            if isinstance(e.func, ast.Name) and e.func.id in ("any", "all") and len(e.args) == 1 and not e.keywords \
                    and isinstance(e.args[0], (ast.GeneratorExp, ast.ListComp)) and len(e.args[0].generators) == 1:
                g = e.args[0].generators[0]
                if isinstance(g.iter, (ast.Tuple, ast.List)) and not g.ifs and not any(isinstance(x, ast.Starred) for x in g.iter.elts) \
                        and 0 < len(g.iter.elts) <= 8 and e.func.id not in self.locals:
                    parts = []
                    for el in g.iter.elts:
                        env = dict(cenv)
                        self._bind_target(g.target, self._of(el, at, d, cenv), env)
                        parts.append(self._of(e.args[0].elt, at, d, env))
                    return ("bool", "or" if e.func.id == "any" else "and", tuple(parts))
            pos = tuple(("uop", "*", rec(a.value)) if isinstance(a, ast.Starred) else rec(a) for a in e.args)
            kws = tuple((kw.arg or "**", rec(kw.value)) for kw in e.keywords)
            if any(k == "**" for k, _ in kws):
                # f(**{"a": x, "b": y}) -- a dict display with literal identifier keys, however it reached the call -- is f(a=x, b=y)
                spread = []
                for k, v_ in kws:
                    if k == "**" and v_[:1] == ("dict",) and v_[1] and all(
                            kk[:1] == ("const",) and kk[1][:1] in ("'", '"') and kk[1][1:-1].isidentifier() for kk, _vv in v_[1]):
                        spread.extend((kk[1][1:-1], vv) for kk, vv in v_[1])
                    elif k == "**" and v_[:1] == ("acc",) and v_[1] == "dict" and v_[2] and all(
                            c[0] == "kv" and not c[1] and c[2][:1] == ("const",) and c[2][1][:1] in ("'", '"') and c[2][1][1:-1].isidentifier()
                            for c in v_[2]):
                        # a dict built here entry by entry with literal keys (later entries of the same key win)
                        merged = {}
                        for c in v_[2]:
                            merged[c[2][1][1:-1]] = c[3]
                        spread.extend(merged.items())
                    else:
                        spread.append((k, v_))
                kws = tuple(spread)
            f = rec(e.func)
            # f(*[a, *(g(p) for p in ps)]): the leading single items of a list built on the spot are positional arguments
            if pos and pos[-1][:2] == ("uop", "*") and pos[-1][2][:1] == ("acc",) and pos[-1][2][1] in ("list", "gen"):
                contribs = list(pos[-1][2][2])
                lead = []
                while contribs and contribs[0][0] == "one" and not contribs[0][1] and not any(x[:1] in (("elem",), ("index",), ("key",), ("val",))
                                                                                                 for x in subterms(contribs[0][2])):
                    lead.append(contribs.pop(0)[2])
                if lead:
                    pos = tuple(pos[:-1]) + tuple(lead) + ((("uop", "*", ("acc", "gen", tuple(contribs))),) if contribs else ())
            # getattr(x, "name"[, default]) with a literal name is x.name (or the default)
            if f == ("glob", "getattr") and len(pos) in (2, 3) and not kws and pos[1][:1] == ("const",) \
                    and pos[1][1][:1] in ("'", '"') and "getattr" not in self.locals:
                at_ = ("attr", pos[0], pos[1][1][1:-1])
                return at_ if len(pos) == 2 else mk_alt([at_, pos[2]], self.max_alts, "getattr")
            # operator.add(a, b) is a + b (the functional spelling of the binary operators; the in-place variants are not)
            if f[:1] == ("attr",) and f[1] == ("glob", "operator") and len(pos) == 2 and not kws and f[2] in _OPERATOR_FUNCS \
                    and "operator" not in self.locals:
                return ("op", _OPERATOR_FUNCS[f[2]], pos[0], pos[1])
            # operator.imul(a, b) is what `a *= b` evaluates to (the in-place method, then the binary fallback)
            if f[:1] == ("attr",) and f[1] == ("glob", "operator") and len(pos) == 2 and not kws and f[2][:1] == "i" \
                    and f[2][1:] in _OPERATOR_FUNCS or (f[:1] == ("attr",) and f[1] == ("glob", "operator") and len(pos) == 2 and not kws
                                                        and f[2] in ("iand", "ior")):
                if "operator" not in self.locals:
                    nm_ = {"iand": "and_", "ior": "or_"}.get(f[2], f[2][1:])
                    return ("aug", _OPERATOR_FUNCS[nm_], pos[0], pos[1])
            # getattr(x, n) with n one of a few literal names (an element of a table of attribute names) is one of x.n
            if f == ("glob", "getattr") and len(pos) == 2 and not kws and pos[1][:1] == ("alt",) and "getattr" not in self.locals \
                    and all(a[:1] == ("const",) and a[1][:1] in ("'", '"') and a[1][1:-1].isidentifier() for a in pos[1][1]):
                return mk_alt([("attr", pos[0], a[1][1:-1]) for a in pos[1][1]], self.max_alts, "getattr")
            nts = _namedtuples_of(getattr(self.cx, "module", None))
            if nts:
                # nt._replace(f=v) is the record with that field changed; **nt._asdict() are its fields as keywords
                if f[:1] == ("attr",) and f[2] == "_replace" and not pos:
                    nf = _nt_fields(nts, f[1])
                    if nf is not None and all(k in nf[0] for k, _ in kws):
                        d = dict(kws)
                        return ("call", f[1][1], tuple(d.get(fn_, v_) for fn_, v_ in zip(nf[0], nf[1])), ())
                if any(k == "**" for k, _ in kws):
                    new_kws = []
                    for k, v_ in kws:
                        nf = _nt_fields(nts, v_[1][1]) if (k == "**" and is_call_of(v_, meth="_asdict") and not v_[2]) else None
                        if nf is not None:
                            new_kws.extend(zip(nf[0], nf[1]))
                        else:
                            new_kws.append((k, v_))
                    kws = tuple(new_kws)
            # G = operator.attrgetter('a', 'b') at module level; G(x) is (x.a, x.b)
            if f[:1] == ("glob",) and len(pos) == 1 and not kws:
                cv = getattr(getattr(self.cx, "module", None), "consts", {}).get(f[1])
                if isinstance(cv, ast.Call) and (A.dotted(cv.func) or "").split(".")[-1] == "attrgetter" and cv.args \
                        and all(isinstance(a_, ast.Constant) and isinstance(a_.value, str) and "." not in a_.value for a_ in cv.args):
                    parts = tuple(("attr", pos[0], a_.value) for a_ in cv.args)
                    return parts[0] if len(parts) == 1 else ("tuple", parts)
            # starmap(f, ((a, b), (c, d))) / map(f, (a, b)) over a literal display: the calls, one by one
            if f in (("glob", "starmap"), ("attr", ("glob", "itertools"), "starmap")) and len(pos) == 2 and not kws \
                    and pos[1][:1] in (("tuple",), ("list",)) and pos[1][1] and all(x[:1] == ("tuple",) for x in pos[1][1]):
                return ("tuple", tuple(("call", pos[0], x[1], ()) for x in pos[1][1]))
            if f == ("glob", "map") and len(pos) == 2 and not kws and pos[1][:1] in (("tuple",), ("list",)) and pos[1][1] \
                    and not any(x[:1] == ("uop",) for x in pos[1][1]):
                return ("tuple", tuple(("call", pos[0], (x,), ()) for x in pos[1][1]))
            # map(f, xs) is (f(x) for x in xs); attrgetter / itemgetter / list / tuple as f are spelled out
            if f == ("glob", "map") and len(pos) == 2 and not kws:
                el = mk_elem(pos[1])
                g = pos[0]
                getter = g[1][2] if (is_call_of(g) and g[1][:1] == ("attr",) and g[1][1] == ("glob", "operator")) else \
                    (g[1][1] if (is_call_of(g) and g[1][:1] == ("glob",)) else None)
                if getter == "attrgetter" and len(g[2]) == 1 and g[2][0][:1] == ("const",):
                    body = ("attr", el, g[2][0][1].strip("'\""))
                elif getter == "itemgetter" and len(g[2]) == 1:
                    body = ("sub", el, g[2][0])
                elif getter == "methodcaller" and len(g[2]) == 1 and g[2][0][:1] == ("const",) and not g[3]:
                    body = ("call", ("attr", el, g[2][0][1].strip("'\"")), (), ())
                elif g[:1] == ("attr",) and g[2] == "__getitem__":
                    # map(d.__getitem__, xs) is (d[x] for x in xs)
                    body = ("sub", g[1], el)
                elif g in (("glob", "list"), ("glob", "tuple")) and el[:1] == ("elem",) and is_call_of(el[1], ("glob", "zip")):
                    body = (g[1], tuple(("elem", a) for a in el[1][2]))
                else:
                    body = ("call", g, (el,), ())
                return ("acc", "gen", (("one", (), body),))
            # tuple(f(r) for r in <display of n rows>) is the display (f(row_1), ..., f(row_n))
            if f in (("glob", "tuple"), ("glob", "list")) and len(pos) == 1 and not kws and pos[0][:1] == ("acc",) and pos[0][1] in ("gen", "list") \
                    and len(pos[0][2]) == 1 and pos[0][2][0][0] == "one" and not pos[0][2][0][1]:
                body_t = pos[0][2][0][2]
                elems = {x for x in subterms(body_t) if x[:1] == ("elem",) and x[1][:1] == ("tuple",) and 0 < len(x[1][1]) <= 8}
                if len(elems) == 1:
                    el = next(iter(elems))
                    return ("tuple" if f[1] == "tuple" else "list", tuple(_simplify_items(subst(body_t, {el: row})) for row in el[1][1]))
            # chain(xs, ys, ..) of lists / generators built here is one generator with their contributions in that order
            if f in (("glob", "chain"), ("attr", ("glob", "itertools"), "chain")) and pos and not kws and "chain" not in self.locals:
                parts = []
                for a_ in pos:
                    c_ = _list_contribs(a_)
                    if c_ is None and a_[:1] == ("acc",) and a_[1] in ("gen", "list"):
                        c_ = tuple(a_[2])
                    if c_ is None and a_[:1] == ("tuple",) and not any(x[:2] == ("uop", "*") for x in a_[1]):
                        c_ = tuple(("one", (), x) for x in a_[1])
                    parts.extend(c_ if c_ is not None else (("many", (), a_),))
                return ("acc", "gen", tuple(parts))
            # list(<generator built here>) is the list with the same contributions
            if f in (("glob", "list"), ("glob", "set")) and len(pos) == 1 and not kws and pos[0][:1] == ("acc",) and pos[0][1] in ("gen", "list", "set"):
                return ("acc", f[1], pos[0][2])
            return ("call", f, pos, kws)
        if isinstance(e, ast.BinOp):
            l, r = rec(e.left), rec(e.right)
            if isinstance(e.op, ast.Add):
                # list concatenation of freshly built lists = one list built in that order
                cl, cr = _list_contribs(l), _list_contribs(r)
                if cl is not None and cr is not None:
                    return ("acc", "list", cl + cr)
                # concatenation of two tuple displays is the display of their elements
                if l[:1] == ("tuple",) and r[:1] == ("tuple",) and not any(x[:1] == ("uop",) and x[1] == "*" for x in l[1] + r[1]):
                    return ("tuple", tuple(l[1]) + tuple(r[1]))
            return ("op", A.BINOP_TOKEN.get(type(e.op), "?"), l, r)
        if isinstance(e, ast.UnaryOp):
            if isinstance(e.op, ast.USub) and isinstance(e.operand, ast.Constant) and isinstance(e.operand.value, (int, float)) \
                    and not isinstance(e.operand.value, bool):
                return ("const", repr(-e.operand.value))
            return ("uop", A.UNARY_TOKEN.get(type(e.op), "?"), rec(e.operand))
        if isinstance(e, ast.Compare):
            if len(e.ops) == 1:
                return ("cmp", A.CMPOP_TOKEN.get(type(e.ops[0]), "?"), rec(e.left), rec(e.comparators[0]))
            parts = []
            left = e.left
            for op, right in zip(e.ops, e.comparators):
                parts.append(("cmp", A.CMPOP_TOKEN.get(type(op), "?"), rec(left), rec(right)))
                left = right
            return ("bool", "and", tuple(parts))
        if isinstance(e, ast.BoolOp):
            return ("bool", "and" if isinstance(e.op, ast.And) else "or", tuple(rec(v) for v in e.values))
        if isinstance(e, ast.IfExp):
            return mk_alt([rec(e.body), rec(e.orelse)], self.max_alts, A.src(e)[:30])
        if isinstance(e, (ast.Tuple, ast.List, ast.Set)):
            kind = {ast.Tuple: "tuple", ast.List: "list", ast.Set: "set"}[type(e)]
            if kind in ("list", "set") and any(isinstance(x, ast.Starred) for x in e.elts):
                # [a, *xs, b]: a list accumulated in that order
                cs = []
                for x in e.elts:
                    if isinstance(x, ast.Starred):
                        tv = rec(x.value)
                        if tv[:1] == ("elem",) and is_call_of(tv[1], ("glob", "zip")) and tv[1][2]:
                            # *pair for pair in zip(a, b): the paired elements
                            cs.extend(("one", (), ("elem", a_)) for a_ in tv[1][2])
                            continue
                        sub = _list_contribs(tv) if kind == "list" else None
                        if sub is not None:
                            cs.extend(sub)
                        elif tv[:1] == ("acc",) and tv[1] in ("list", "set", "gen"):
                            cs.extend(tv[2])
                        else:
                            cs.append(("many", (), tv))
                    else:
                        cs.append(("one", (), rec(x)))
                if all(c[0] == "one" and not c[1] for c in cs):
                    return (kind, tuple(c[2] for c in cs))      # a display after all
                return ("acc", kind, tuple(cs))
            return (kind, tuple(rec(x) for x in e.elts))
        if isinstance(e, ast.Dict):
            if any(k is None for k in e.keys):
                # {**a, k: v, **b}: a mapping accumulated in that order
                cs = []
                for k, v in zip(e.keys, e.values):
                    if k is not None:
                        cs.append(("kv", (), rec(k), rec(v)))
                        continue
                    tv = rec(v)
                    if tv[:1] == ("acc",) and tv[1] == "dict":
                        cs.extend(tv[2])      # **{comprehension}: its entries, spliced in place
                    elif tv[:1] == ("dict",):
                        cs.extend(("kv", (), a, b) for a, b in tv[1])
                    else:
                        cs.append(("many", (), tv))
                return ("acc", "dict", tuple(cs))
            return ("dict", tuple((rec(k), rec(v)) for k, v in zip(e.keys, e.values)))
        if isinstance(e, (ast.ListComp, ast.SetComp, ast.GeneratorExp, ast.DictComp)):
            return self._comp(e, at, d, cenv)
        if isinstance(e, ast.Starred):
            return ("uop", "*", rec(e.value))
        if isinstance(e, ast.NamedExpr):
            return rec(e.value)
        if isinstance(e, ast.JoinedStr):
            parts = []
            for v in e.values:
                if isinstance(v, ast.FormattedValue):
                    conv = {-1: "", 115: "!s", 114: "!r", 97: "!a"}.get(v.conversion, "")
                    parts.append(("fmt", conv, rec(v.value)))
                else:
                    parts.append(rec(v))
            return ("fstr", tuple(parts))
        if isinstance(e, ast.Lambda):
            return ("opaque", "lambda:" + A.src(e.body)[:40])
        return ("opaque", A.src(e)[:40])

    def _comp(self, e, at, depth, cenv) -> Term:
        env = dict(cenv)
        guards = []
        for g in e.generators:
            it = self._of(g.iter, at, depth, env)
            self._bind_target(g.target, mk_elem(it), env)
            for c in g.ifs:
                guards.append((True, self._of(c, at, depth, env)))
                # `if (x := f(v)) is not None` binds x for the element expression
                for n in ast.walk(c):
                    if isinstance(n, ast.NamedExpr) and isinstance(n.target, ast.Name):
                        env[n.target.id] = self._of(n.value, at, depth, env)
        kind = {ast.ListComp: "list", ast.SetComp: "set", ast.GeneratorExp: "gen", ast.DictComp: "dict"}[type(e)]
        if isinstance(e, (ast.ListComp, ast.SetComp)) and len(e.generators) == 1 and not guards and isinstance(e.elt, ast.Name) \
                and isinstance(e.generators[0].target, ast.Name) and e.elt.id == e.generators[0].target.id:
            # [x for x in it] is list(it)
            return ("call", ("glob", kind), (self._of(e.generators[0].iter, at, depth, cenv),), ())
        if isinstance(e, ast.DictComp):
            return ("acc", kind, (("kv", tuple(guards), self._of(e.key, at, depth, env), self._of(e.value, at, depth, env)),))
        return ("acc", kind, (("one", tuple(guards), self._of(e.elt, at, depth, env)),))

    def _bind_target(self, target, term, env):
        if isinstance(target, ast.Name):
            env[target.id] = term
        elif isinstance(target, (ast.Tuple, ast.List)):
            for i, el in enumerate(target.elts):
                self._bind_target(el, self._item(term, i), env)
        elif isinstance(target, ast.Starred):
            self._bind_target(target.value, ("opaque", "*rest"), env)

    @staticmethod
    def _item(term, i):
        # element i of an element of zip(a, b, ...) is an element of the i-th argument (paired iteration)
        if term[:1] == ("alt",):
            return mk_alt([Sym._item(x, i) for x in term[1]])
        if term[:1] == ("elem",) and is_call_of(term[1], ("glob", "zip")) and i < len(term[1][2]):
            return ("elem", term[1][2][i])
        if term[:1] == ("elem",) and is_call_of(term[1], ("glob", "enumerate")) and term[1][2]:
            return ("index", term[1][2][0]) if i == 0 else ("elem", term[1][2][0]) if i == 1 else ("item", term, i)
        if term[:1] == ("elem",) and is_call_of(term[1], meth="items") and i in (0, 1):
            return ("key" if i == 0 else "val", term[1][1][1])
        if term[:1] == ("tuple",) and i < len(term[1]):
            return term[1][i]
        # a, b = (f(c) for c in (c1, c2)): component i of a generator / list built by one comprehension over a display is f(c_i)
        if term[:1] == ("acc",) and term[1] in ("gen", "list") and len(term[2]) == 1 and term[2][0][0] == "one" and not term[2][0][1]:
            body_t = term[2][0][2]
            elems = {x for x in subterms(body_t) if x[:1] == ("elem",) and x[1][:1] in (("tuple",), ("list",)) and 0 < len(x[1][1]) <= 8}
            if len(elems) == 1:
                el = next(iter(elems))
                if i < len(el[1][1]):
                    return _simplify_items(subst(body_t, {el: el[1][1][i]}))
        if is_call_of(term) and term[1][:1] == ("glob",) and _NT_ACTIVE.get(term[1][1]) is not None:
            nf = _nt_fields(_NT_ACTIVE, term)
            if nf is not None and i < len(nf[1]):
                return nf[1][i]
        return ("item", term, i)

    def _name(self, name: str, at: int, depth: int, cenv: dict) -> Term:
        key = (name, at)
        mkey = (name, at, frozenset(self._acc_busy)) if self._acc_busy else key
        if not cenv and mkey in self._memo:
            return self._memo[mkey]
        if key in self._busy:
            self._rec_pending.add(key)
            return ("rec", name, at)
        defs: List[Def] = self.rd.reaching(at, name)
        if not defs:
            if name in self.locals:
                return ("opaque", f"unbound:{name}")
            # a module-level record of constants (`_EMPTY = _Rec(None, None)`) is that record
            mod = getattr(self.cx, "module", None)
            cv = getattr(mod, "consts", {}).get(name) if mod is not None else None
            if isinstance(cv, ast.Call) and isinstance(cv.func, ast.Name) and cv.func.id in _namedtuples_of(mod) \
                    and all(isinstance(a_, ast.Constant) for a_ in cv.args) and all(isinstance(k.value, ast.Constant) for k in cv.keywords):
                return ("call", ("glob", cv.func.id), tuple(("const", repr(a_.value)) for a_ in cv.args),
                        tuple((k.arg, ("const", repr(k.value.value))) for k in cv.keywords))
            # a module-level tuple of literal constants (a table of names) is that tuple
            if isinstance(cv, (ast.Tuple, ast.List)) and 0 < len(cv.elts) <= 16 and all(isinstance(x, ast.Constant) for x in cv.elts) \
                    and isinstance(cv, ast.Tuple):
                return ("tuple", tuple(("const", repr(x.value)) for x in cv.elts))
            return ("glob", name)
        self._busy.add(key)
        try:
            strong = [d for d in defs if d.strong]
            weak = [d for d in defs if not d.strong]
            vals: List[Term] = [self._def_value(sd, name, weak, depth, cenv) for sd in strong]
            if not strong:
                vals.append(("opaque", f"mutated:{name}"))
            res = mk_alt(vals, self.max_alts, name)
            if res[:1] == ("alt",):
                excl = self._known_not(name, at)
                if excl and any(a in excl for a in res[1]):
                    res = mk_alt([a for a in res[1] if a not in excl] or list(res[1]), self.max_alts, name)
        finally:
            self._busy.discard(key)
        mine = ("rec", name, at)
        self._rec_pending.discard(key)
        if res[:1] == ("alt",) and mine in res[1]:
            # the name carried round a loop through plain copies (`acc = f(acc)` where f hands its argument back): what it holds
            # is what it held before, i.e. one of the other alternatives
            rest = [a for a in res[1] if a != mine]
            if not any(contains(a, lambda t: t == mine) for a in rest):
                res = mk_alt(rest, self.max_alts, name)
        if not cenv and not (self._rec_pending and contains(res, lambda t: t[:1] == ("rec",))):
            self._memo[mkey] = res
        return res

    def _signature_of(self, func) -> Optional[tuple]:
        """positional parameter names (without self) of the callee when it is a function / class of this module or a method
        of this class called on self; None if unknown or if it takes *args"""
        mod = getattr(self.cx, "module", None)
        cls = getattr(self.cx, "cls", None)
        fn = None
        drop = 0
        if isinstance(func, ast.Name) and mod is not None and func.id not in self.locals:
            if func.id in getattr(mod, "functions", {}):
                fn = mod.functions[func.id]
            elif func.id in getattr(mod, "classes", {}) and "__init__" in mod.classes[func.id].methods:
                fn, drop = mod.classes[func.id].methods["__init__"], 1
        elif isinstance(func, ast.Attribute) and isinstance(func.value, ast.Name) and func.value.id == self.selfname and cls is not None \
                and func.attr in cls.methods and func.attr not in cls.properties:
            fn = cls.methods[func.attr]
            decs = [A.dotted(d) or "" for d in fn.decorator_list]
            drop = 0 if "staticmethod" in decs else 1
        if fn is None or fn.args.vararg is not None or fn.args.posonlyargs:
            return None
        return tuple(a.arg for a in fn.args.args)[drop:]

    @staticmethod
    def _class_rebinds(cls, attr: str) -> bool:
        for fn in cls.methods.values():
            for n in ast.walk(fn):
                if isinstance(n, ast.Attribute) and n.attr == attr and isinstance(n.ctx, (ast.Store, ast.Del)):
                    return True
        return False

    def _known_not(self, name: str, at: int) -> set:
        """terms (None, or a global sentinel name) that some test dominating `at` established `name` is not -- provided the
        name was not rebound since"""
        out = set()

        def says(test, pol):
            if isinstance(test, ast.UnaryOp) and isinstance(test.op, ast.Not):
                says(test.operand, not pol)
            elif isinstance(test, ast.BoolOp):
                if (isinstance(test.op, ast.And) and pol) or (isinstance(test.op, ast.Or) and not pol):
                    for v in test.values:
                        says(v, pol)
            elif isinstance(test, ast.Compare) and len(test.ops) == 1 and (
                    (isinstance(test.left, ast.Name) and test.left.id == name)
                    or (isinstance(test.left, ast.NamedExpr) and test.left.target.id == name)):        # (x := f()) is not S
                c = test.comparators[0]
                if (isinstance(test.ops[0], ast.IsNot) and pol) or (isinstance(test.ops[0], ast.Is) and not pol):
                    if isinstance(c, ast.Constant) and c.value is None:
                        out.add(("const", "None"))
                    elif isinstance(c, ast.Name) and c.id not in self.locals:
                        out.add(("glob", c.id))
        here = {(d.nid, d.kind) for d in self.rd.reaching(at, name)}
        for g in self.cfg.guards(at):
            if g.ast is None or isinstance(g.ast, (ast.For, ast.AsyncFor)) or g.from_assert:
                continue
            walrus_here = any(isinstance(n_, ast.NamedExpr) and n_.target.id == name for n_ in ast.walk(g.ast))
            if {(d.nid, d.kind) for d in self.rd.reaching(g.of, name)} == here or (walrus_here and {n_ for n_, _ in here} == {g.of}):
                says(g.ast, g.kind == "T")
        return out

    def _def_value(self, sd: Def, name: str, weak: List[Def], depth: int, cenv: dict) -> Term:
        if sd.kind == "param":
            return self.params.get(name, ("param", -1, name))
        if sd.kind == "for":
            st = sd.stmt
            env: dict = {}
            self._bind_target(st.target, mk_elem(self._of(st.iter, sd.nid, depth, cenv)), env)
            return env.get(name, ("opaque", name))
        if sd.kind == "with":
            return ("call", ("attr", self._of(sd.value, sd.nid, depth, cenv), "__enter__"), (), ())
        if sd.kind == "except":
            return ("exc", name)
        if sd.kind == "import":
            return ("glob", name)
        if sd.kind == "del":
            return ("opaque", f"deleted:{name}")
        if sd.kind == "aug":
            st = sd.stmt
            old = self._name(name, sd.nid, depth, cenv)
            # `x OP= y` is not `x OP y`: it dispatches to x's in-place method first (distinct term)
            val = self._of(st.value, sd.nid, depth, cenv)
            if isinstance(st.op, ast.Add):
                # list += list is list.extend: one list built in that order
                cl, cr = _list_contribs(old), _list_contribs(val)
                if cl is not None and cr is not None:
                    return ("acc", "list", cl + cr)
            return ("aug", A.BINOP_TOKEN.get(type(st.op), "?"), old, val)
        if sd.kind == "assign":
            v = sd.value
            # synthetic Subscript(value, Constant(i)) from tuple unpacking -> item
            if isinstance(v, ast.Subscript) and isinstance(v.slice, ast.Constant) and isinstance(v.slice.value, int) \
                    and not hasattr(v, "lineno"):
                return self._item(self._of(v.value, sd.nid, depth, cenv), v.slice.value)
            kind = self._fresh_kind(v)
            literal_nonempty = (isinstance(v, (ast.List, ast.Set, ast.Dict)) and bool(getattr(v, "elts", None) or getattr(v, "keys", None))) \
                or isinstance(v, (ast.ListComp, ast.SetComp, ast.DictComp))
            if kind is not None and not (literal_nonempty and not weak) and (name, sd.nid) not in self._acc_busy:
                # what is added may itself be computed from the container (a work list): inside, the container
                # stands for its initial contents only
                self._acc_busy.add((name, sd.nid))
                try:
                    # mutations that can follow this binding (those before it belong to an earlier binding of the name)
                    weak_here = [w for w in weak if w.nid != sd.nid and self.cfg.path_avoiding(sd.nid, w.nid, [])]
                    contrib = self._contributions(name, sd, weak_here, depth, cenv)
                finally:
                    self._acc_busy.discard((name, sd.nid))
                if contrib is not None:
                    cs = tuple(self._initial_contrib(v, sd.nid, depth, cenv)) + tuple(contrib)
                    if kind == "dict":      # a (key, value) pair handed to a dict (update with pairs, dict(pairs)) is the entry key -> value
                        cs = tuple(("kv", c[1], c[2][1][0], c[2][1][1]) if (c[0] == "one" and c[2][:1] == ("tuple",) and len(c[2][1]) == 2) else c
                                   for c in cs)
                    return ("acc", kind, cs)
            return self._of(v, sd.nid, depth, cenv)
        return ("opaque", name)

    @staticmethod
    def _fresh_kind(v) -> Optional[str]:
        if isinstance(v, ast.List) and not any(isinstance(e, ast.Starred) for e in v.elts):
            return "list"
        if isinstance(v, ast.Set) and not any(isinstance(e, ast.Starred) for e in v.elts):
            return "set"
        if isinstance(v, ast.Dict) and all(k is not None for k in v.keys):
            return "dict"
        if isinstance(v, ast.ListComp):
            return "list"
        if isinstance(v, ast.SetComp):
            return "set"
        if isinstance(v, ast.DictComp):
            return "dict"
        if isinstance(v, ast.Call):
            n = (A.call_name(v) or "").split(".")[-1]
            if n in FRESH_CALLS and not v.keywords:
                if n in ("defaultdict", "OrderedDict"):
                    return "dict" if len(v.args) <= 1 else None
                if len(v.args) <= 1:
                    return FRESH_CALLS[n]
        return None

    def _initial_contrib(self, v, nid, depth, cenv):
        if isinstance(v, ast.Call) and v.args and (A.call_name(v) or "").split(".")[-1] in ("set", "list", "deque", "dict", "OrderedDict"):
            return self._splice("many", (), self._of(v.args[0], nid, depth, cenv))
        if isinstance(v, (ast.ListComp, ast.SetComp, ast.DictComp)):
            t = self._comp(v, nid, depth, cenv)
            return list(t[2])
        if isinstance(v, (ast.List, ast.Set)):
            return [("one", (), self._of(e, nid, depth, cenv)) for e in v.elts]
        if isinstance(v, ast.Dict):
            return [("kv", (), self._of(k, nid, depth, cenv), self._of(x, nid, depth, cenv)) for k, x in zip(v.keys, v.values)]
        return []

    @staticmethod
    def _splice(kind, g, term):
        """`extend(<comprehension>)` contributes the comprehension's elements"""
        if kind == "many" and isinstance(term, tuple) and term[:1] == ("acc",):
            out = []
            for c in term[2]:
                out.append((c[0], tuple(g) + tuple(c[1])) + tuple(c[2:]))
            return out
        return [(kind, g, term)]

    def _contributions(self, name, init: Def, weak: List[Def], depth, cenv):
        """what is added to the fresh container `name` created at `init` by the weak definitions that reach the use"""
        out = []
        for w in sorted(weak, key=lambda d: d.nid):
            if not self.cfg.dominates(init.nid, w.nid):
                return None
            g = self.guards(w.nid, since=init.nid)
            if w.kind == "mutcall":
                c = w.value
                if not (isinstance(c.func.value, ast.Name) and c.func.value.id == name):
                    return None
                m = c.func.attr
                if m in ONE_ADDERS and len(c.args) == 1:
                    out.append(("one", g, self._of(c.args[0], w.nid, depth, cenv)))
                elif m in MANY_ADDERS and len(c.args) == 1:
                    out.extend(self._splice("many", g, self._of(c.args[0], w.nid, depth, cenv)))
                elif m == "insert" and len(c.args) == 2:
                    out.append(("one", g, self._of(c.args[1], w.nid, depth, cenv)))
                elif m in ("sort", "reverse"):
                    out.append(("reorder", g, ("const", repr(m))))
                else:
                    return None
            elif w.kind == "store":
                st = w.stmt
                if isinstance(st, ast.Assign) and len(st.targets) == 1 and isinstance(st.targets[0], ast.Subscript) \
                        and isinstance(st.targets[0].value, ast.Name) and st.targets[0].value.id == name:
                    out.append(("kv", g, self._of(st.targets[0].slice, w.nid, depth, cenv), self._of(st.value, w.nid, depth, cenv)))
                else:
                    return None
            else:
                return None
        return out


# ---------------------------------------------------------------------- events


class Event:
    """One observable action of the function: a call, a store, a delete, a return or a raise."""

    __slots__ = ("nid", "kind", "node", "func", "args", "kwargs", "target", "value", "term")

    def __init__(self, nid, kind, node):
        self.nid = nid
        self.kind = kind
        self.node = node
        self.func = None
        self.args = ()
        self.kwargs = ()
        self.target = None
        self.value = None
        self.term = None

    def __repr__(self):
        if self.kind == "call":
            return f"<call@{self.nid} {show(self.term)}>"
        return f"<{self.kind}@{self.nid} {A.src(self.node)[:60]}>"


def events(cx, sym: Sym) -> List[Event]:
    """calls (innermost first within a statement), stores, deletes, returns and raises of the function, in CFG-node order"""
    out: List[Event] = []
    cfg = cx.cfg
    for n in sorted(cfg.nodes.values(), key=lambda n: n.id):
        if n.kind not in ("stmt", "test", "for", "with") or n.ast is None:
            continue
        for part in cfg.own_exprs(n.id):
            if part is None:
                continue
            calls = [c for c in _postorder(part) if isinstance(c, ast.Call)]
            for c in calls:
                ev = Event(n.id, "call", c)
                ev.term = sym.of(c, n.id)
                out.append(ev)
        st = n.ast
        if n.kind == "stmt":
            if isinstance(st, (ast.Assign, ast.AnnAssign, ast.AugAssign)):
                targets = st.targets if isinstance(st, ast.Assign) else [st.target]
                for t in targets:
                    unpack = isinstance(t, (ast.Tuple, ast.List))
                    for i_el, el in enumerate(t.elts if unpack else [t]):
                        if isinstance(el, (ast.Attribute, ast.Subscript)):
                            ev = Event(n.id, "store", st)
                            ev.target = sym.of(el, n.id)
                            ev.value = sym.of(st.value, n.id) if getattr(st, "value", None) is not None else None
                            if unpack and ev.value is not None:
                                ev.value = Sym._item(ev.value, i_el)
                            if isinstance(st, ast.AugAssign):
                                ev.value = ("aug", A.BINOP_TOKEN.get(type(st.op), "?"), ev.target, ev.value)
                            out.append(ev)
            elif isinstance(st, ast.Delete):
                for t in st.targets:
                    if isinstance(t, (ast.Attribute, ast.Subscript)):
                        ev = Event(n.id, "del", st)
                        ev.target = sym.of(t, n.id)
                        out.append(ev)
            elif isinstance(st, ast.Expr) and isinstance(st.value, (ast.Yield, ast.YieldFrom)):
                ev = Event(n.id, "yield", st)
                ev.value = sym.of(st.value.value, n.id) if st.value.value is not None else None
                out.append(ev)
            elif isinstance(st, ast.Return):
                ev = Event(n.id, "return", st)
                ev.value = sym.of(st.value, n.id)
                out.append(ev)
            elif isinstance(st, ast.Raise):
                ev = Event(n.id, "raise", st)
                ev.value = sym.of(st.exc, n.id) if st.exc is not None else None
                out.append(ev)
    return out


def _postorder(node):
    for c in ast.iter_child_nodes(node):
        if isinstance(c, (ast.FunctionDef, ast.AsyncFunctionDef, ast.ClassDef, ast.Lambda)):
            continue
        yield from _postorder(c)
    yield node


# ---------------------------------------------------------------------- conditions

_NEG_CMP = {"==": "!=", "!=": "==", "<": ">=", ">=": "<", ">": "<=", "<=": ">", "in": "not in", "not in": "in",
            "is": "is not", "is not": "is"}


def neg(t) -> Term:
    """logical negation of a condition term, pushed inwards"""
    if isinstance(t, tuple):
        if t[:1] == ("uop",) and t[1] == "not":
            return t[2]
        if t[:1] == ("cmp",) and t[1] in _NEG_CMP:
            return ("cmp", _NEG_CMP[t[1]], t[2], t[3])
        if t[:1] == ("bool",):
            return ("bool", "or" if t[1] == "and" else "and", tuple(neg(x) for x in t[2]))
        if t[:1] == ("empty",):
            return ("nonempty", t[1])
        if t[:1] == ("nonempty",):
            return ("empty", t[1])
    return ("uop", "not", t)


def norm_cond(polarity: bool, t) -> Term:
    """condition term that holds on the given branch, with negations pushed inwards and trivial forms unified:
    `len(x) == 0` / `not x` / `len(x) < 1` -> ("empty", x);  `len(x) != 0`/`len(x) > 0` -> ("nonempty", x) is NOT applied
    to bare truthiness (a bare name may be a flag)."""
    t = _simplify(t)
    if not polarity:
        t = _simplify(neg(t))
    return t


def _simplify(t) -> Term:
    if not isinstance(t, tuple):
        return t
    if t[:1] == ("uop",) and t[1] == "not":
        inner = _simplify(t[2])
        n = neg(inner)
        if not (n[:1] == ("uop",) and n[1] == "not"):
            return _simplify(n)
        return ("uop", "not", inner)
    if t[:1] == ("bool",):
        return ("bool", t[1], tuple(_simplify(x) for x in t[2]))
    if t[:1] == ("cmp",):
        op, a, b = t[1], t[2], t[3]
        # `(x in s) is True` is `x in s`: membership / identity tests always yield a bool
        if op in ("is", "is not", "==", "!=") and b in (("const", "True"), ("const", "False")) and a[:1] == ("cmp",) \
                and a[1] in ("in", "not in", "is", "is not"):
            pos = (b == ("const", "True")) == (op in ("is", "=="))
            return _simplify(a) if pos else _simplify(neg(a))
        # len(x) <op> 0
        if is_call_of(a, ("glob", "len")) and b[:1] == ("const",) and b[1] in ("0", "1"):
            x = a[2][0] if a[2] else None
            if x is not None:
                if (op, b[1]) in (("==", "0"), ("<", "1"), ("<=", "0")):
                    return ("empty", x)
                if (op, b[1]) in (("!=", "0"), (">", "0"), (">=", "1")):
                    return ("nonempty", x)
        return t
    return t


def conjuncts(t) -> Tuple[Term, ...]:
    if isinstance(t, tuple) and t[:1] == ("bool",) and t[1] == "and":
        out = []
        for x in t[2]:
            out.extend(conjuncts(x))
        return tuple(out)
    return (t,)


# ---------------------------------------------------------------------- matching


class V:
    """pattern variable; V('_') matches anything without binding; `pred` restricts the match"""

    def __init__(self, name: str = "_", pred=None):
        self.name = name
        self.pred = pred

    def __repr__(self):
        return f"V({self.name})"


ANY = V("_")


def match(t, pat, b: Optional[dict] = None) -> Optional[dict]:
    """structural match of term t against pattern (terms with V placeholders); returns bindings or None.
    An ("alt", ...) term matches if *every* alternative matches (with consistent bindings)."""
    b = {} if b is None else b
    if isinstance(pat, V):
        if pat.pred is not None and not pat.pred(t):
            return None
        if pat.name == "_":
            return b
        if pat.name in b:
            return b if b[pat.name] == t else None
        nb = dict(b)
        nb[pat.name] = t
        return nb
    if isinstance(t, tuple) and t[:1] == ("alt",) and not (isinstance(pat, tuple) and pat[:1] == ("alt",)):
        cur = b
        for a in t[1]:
            cur = match(a, pat, cur)
            if cur is None:
                return None
        return cur
    if isinstance(pat, tuple):
        if not isinstance(t, tuple) or len(t) != len(pat):
            return None
        if len(pat) == 4 and pat[0] == "op" and isinstance(pat[1], str) and pat[1] in ("+", "*", "&", "|", "^") \
                and t[0] == "op" and t[1] == pat[1]:
            for x, y in ((t[2], t[3]), (t[3], t[2])):
                m1 = match(x, pat[2], b)
                if m1 is not None:
                    m2 = match(y, pat[3], m1)
                    if m2 is not None:
                        return m2
            return None
        cur = b
        for x, p in zip(t, pat):
            cur = match(x, p, cur)
            if cur is None:
                return None
        return cur
    return b if t == pat else None


def match_some(t, pat) -> Optional[dict]:
    """some alternative of t matches"""
    for a in alts(t):
        m = match(a, pat)
        if m is not None:
            return m
    # alternatives nested inside the term (an argument that is one of several constants, ...)
    if contains(t, lambda x: x[:1] == ("alt",)):
        for a in instances(t, 16):
            m = match(a, pat)
            if m is not None:
                return m
    return None


def find(t, pat) -> List[dict]:
    """bindings for every subterm of t that matches pat"""
    out = []
    for s in subterms(t):
        m = match(s, pat)
        if m is not None:
            out.append(m)
    return out


def mcall(recv, meth, *args, **kw):
    """pattern / term for recv.meth(*args)"""
    return ("call", ("attr", recv, meth), tuple(args), tuple(sorted(kw.items())))


def fcall(name, *args, **kw):
    f = ("glob", name) if isinstance(name, str) else name
    return ("call", f, tuple(args), tuple(sorted(kw.items())))


def sattr(name):
    return ("attr", SELF, name)


def canon(t) -> Term:
    """operands of commutative operators (+, *, &, |, ^, ==, !=, and, or) in a canonical order"""
    if not isinstance(t, tuple):
        return t
    if t and isinstance(t[0], str):
        parts = tuple(canon(x) if isinstance(x, tuple) else x for x in t[1:])
        t2 = (t[0],) + parts
        if t2[0] == "op" and t2[1] in ("+", "*", "&", "|", "^"):
            a, b = sorted([t2[2], t2[3]], key=repr)
            return ("op", t2[1], a, b)
        if t2[0] == "cmp" and t2[1] in ("==", "!="):
            a, b = sorted([t2[2], t2[3]], key=repr)
            return ("cmp", t2[1], a, b)
        return t2
    return tuple(canon(x) if isinstance(x, tuple) else x for x in t)


def subst(t, mapping: dict) -> Term:
    """replace every occurrence of a key term of `mapping` (bottom-up, so nested replacements compose)"""
    if not isinstance(t, tuple):
        return t
    if t in mapping:
        return mapping[t]
    new = tuple(subst(x, mapping) if isinstance(x, tuple) else x for x in t)
    return mapping.get(new, new)



# ---------------------------------------------------------------------- string templates


def norm_str(t) -> Term:
    """f-string, str.format and %-formatting of a literal template in one form:
    ("fstr", (("const", "'lit'") | ("fmt", conv, term), ...)); other terms are returned unchanged (recursively)."""
    import string
    if not isinstance(t, tuple):
        return t
    if t[:1] == ("fstr",):
        parts = []
        for x in t[1]:
            if x[:1] == ("fmt",):
                parts.append(("fmt", x[1], norm_str(x[2])))
            else:
                parts.append(x)
        return ("fstr", _merge_lits(parts))
    if is_call_of(t, meth="format") and t[1][1][:1] == ("const",) and t[1][1][1][:1] in ("'", '"'):
        try:
            tmpl = eval(t[1][1][1])        # a string literal's repr
        except Exception:
            return t
        args, kws = t[2], dict(t[3])
        parts, auto = [], 0
        try:
            for lit, field, spec, conv in string.Formatter().parse(tmpl):
                if lit:
                    parts.append(("const", repr(lit)))
                if field is None:
                    continue
                if spec:
                    return t
                if field == "":
                    val = args[auto]
                    auto += 1
                elif field.isdigit():
                    val = args[int(field)]
                elif field in kws:
                    val = kws[field]
                else:
                    return t
                parts.append(("fmt", "!" + conv if conv else "", norm_str(val)))
        except (IndexError, ValueError):
            return t
        return ("fstr", _merge_lits(parts))
    if t[:1] == ("op",) and t[1] == "%" and t[2][:1] == ("const",) and t[2][1][:1] in ("'", '"'):
        try:
            tmpl = eval(t[2][1])
        except Exception:
            return t
        vals = list(t[3][1]) if t[3][:1] == ("tuple",) else [t[3]]
        parts, i, pos = [], 0, 0
        import re as _re
        for mm in _re.finditer(r"%([srd%])", tmpl):
            if mm.start() > pos:
                parts.append(("const", repr(tmpl[pos:mm.start()])))
            pos = mm.end()
            if mm.group(1) == "%":
                parts.append(("const", repr("%")))
                continue
            if i >= len(vals):
                return t
            parts.append(("fmt", "!r" if mm.group(1) == "r" else "", norm_str(vals[i])))
            i += 1
        if pos < len(tmpl):
            parts.append(("const", repr(tmpl[pos:])))
        if i != len(vals) or "%" in _re.sub(r"%[srd%]", "", tmpl):
            return t
        return ("fstr", _merge_lits(parts))
    if t and isinstance(t[0], str):
        return (t[0],) + tuple(norm_str(x) if isinstance(x, tuple) else x for x in t[1:])
    return tuple(norm_str(x) if isinstance(x, tuple) else x for x in t)


def _merge_lits(parts):
    out = []
    for p_ in parts:
        if p_[:1] == ("const",) and out and out[-1][:1] == ("const",):
            try:
                out[-1] = ("const", repr(eval(out[-1][1]) + eval(p_[1])))
                continue
            except Exception:
                pass
        out.append(p_)
    return tuple(out)


def template(t):
    """(literal skeleton with `{}` for holes, [(conv, term), ...]) of a normalised string template, or None"""
    t = norm_str(t)
    if t[:1] == ("const",) and t[1][:1] in ("'", '"'):
        try:
            return eval(t[1]), []
        except Exception:
            return None
    if t[:1] != ("fstr",):
        return None
    skel, holes = "", []
    for p_ in t[1]:
        if p_[:1] == ("const",):
            try:
                skel += eval(p_[1]) if p_[1][:1] in ("'", '"') else str(p_[1])
            except Exception:
                return None
        elif p_[:1] == ("fmt",):
            skel += "{}"
            holes.append((p_[1], p_[2]))
        else:
            return None
    return skel, holes
